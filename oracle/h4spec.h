/* h4spec.h — independent HDF4 format reader/validator, written from the format
 * description (hfile_priv.h comments / HDF4 specification); shares no code with
 * the library.  Works on a byte image.  Used under CBMC (structure concrete,
 * payload symbolic) and natively.
 *
 * h4spec_scan()   : magic; acyclic in-bounds DD-block chain; DD decode; no duplicate
 *                   tag/ref; offsets/lengths non-negative and inside the file (or both
 *                   "invalid" = -1); live extents do not overlap each other or a DD
 *                   block unless they are identical (Hdupdd alias).
 * h4spec_read()   : recovers the logical bytes of an element: contiguous, or
 *                   linked-block (special header, link tables, data blocks; missing
 *                   blocks read as zeros), or external (bytes of the external image).
 */
#ifndef H4SPEC_H
#define H4SPEC_H
#define H4S_MAXDD 48
#define H4S_TAG_NULL 1
#define H4S_TAG_FREE 108
#define H4S_TAG_LINKED 20
#define H4S_SPECIAL 0x4000
typedef struct {
    int  ndd, nblk;
    int  tag[H4S_MAXDD], ref[H4S_MAXDD];
    long off[H4S_MAXDD], len[H4S_MAXDD];
    long blk_off[8], blk_len[8];
    const char *err;
} h4spec_t;

static long h4s_be(const unsigned char *p, int n) { long v = 0; int i; for (i = 0; i < n; i++) v = (v << 8) | p[i]; return v; }
static long h4s_sbe32(const unsigned char *p) { long v = h4s_be(p, 4); return v >= 0x80000000L ? v - 0x100000000L : v; }

static int h4spec_scan(const unsigned char *b, long size, h4spec_t *s)
{
    long blk = 4;
    int  i, j, guard;
    s->ndd = 0; s->nblk = 0; s->err = 0;
    if (size < 4 + 6 || b[0] != 0x0e || b[1] != 0x03 || b[2] != 0x13 || b[3] != 0x01) { s->err = "magic"; return 0; }
    for (guard = 0; blk != 0; guard++) {
        long ndds, next;
        if (guard >= 8) { s->err = "chain too long / cyclic"; return 0; }
        if (blk < 4 || blk + 6 > size) { s->err = "DD block header out of bounds"; return 0; }
        for (i = 0; i < s->nblk; i++) if (s->blk_off[i] == blk) { s->err = "cyclic DD chain"; return 0; }
        ndds = h4s_be(b + blk, 2); next = h4s_be(b + blk + 2, 4);
        if (ndds < 1 || blk + 6 + ndds * 12 > size) { s->err = "DD block body out of bounds"; return 0; }
        s->blk_off[s->nblk] = blk; s->blk_len[s->nblk] = 6 + ndds * 12; s->nblk++;
        for (i = 0; i < ndds; i++) {
            const unsigned char *d = b + blk + 6 + i * 12;
            int  tag = (int)h4s_be(d, 2), ref = (int)h4s_be(d + 2, 2);
            long off = h4s_sbe32(d + 4), len = h4s_sbe32(d + 8);
            if (tag == H4S_TAG_NULL || tag == H4S_TAG_FREE) continue;
            if (s->ndd >= H4S_MAXDD) { s->err = "too many DDs for the validator"; return 0; }
            if (!(off == -1 && len == -1)) {
                if (off < 0 || len < 0) { s->err = "negative offset/length"; return 0; }
                if (off + len > size) { s->err = "element extends beyond the file"; return 0; }
            }
            if (ref == 0) { s->err = "reference number 0"; return 0; }
            s->tag[s->ndd] = tag; s->ref[s->ndd] = ref; s->off[s->ndd] = off; s->len[s->ndd] = len; s->ndd++;
        }
        blk = next;
    }
    for (i = 0; i < s->ndd; i++)
        for (j = 0; j < i; j++) {
            if ((s->tag[i] & ~H4S_SPECIAL) == (s->tag[j] & ~H4S_SPECIAL) && s->ref[i] == s->ref[j]) { s->err = "duplicate tag/ref"; return 0; }
            if (s->len[i] > 0 && s->len[j] > 0 && !(s->off[i] == s->off[j] && s->len[i] == s->len[j]) &&
                s->off[i] < s->off[j] + s->len[j] && s->off[j] < s->off[i] + s->len[i]) { s->err = "live elements overlap"; return 0; }
        }
    for (i = 0; i < s->ndd; i++)
        for (j = 0; j < s->nblk; j++)
            if (s->len[i] > 0 && s->off[i] < s->blk_off[j] + s->blk_len[j] && s->blk_off[j] < s->off[i] + s->len[i]) { s->err = "element overlaps a DD block"; return 0; }
    return 1;
}

static int h4spec_find(const h4spec_t *s, int tag, int ref)
{
    int i;
    for (i = 0; i < s->ndd; i++) if ((s->tag[i] & ~H4S_SPECIAL) == tag && s->ref[i] == ref) return i;
    return -1;
}
static int h4spec_find_exact(const h4spec_t *s, int tag, int ref)
{
    int i;
    for (i = 0; i < s->ndd; i++) if (s->tag[i] == tag && s->ref[i] == ref) return i;
    return -1;
}

/* returns the logical length, or -1 if the stored structure is inconsistent (s->err set);
 * writes at most max bytes to out.  ext/extsize: image of the external file (may be 0). */
static long h4spec_read(const unsigned char *b, long size, h4spec_t *s, int tag, int ref, unsigned char *out, long max,
                        const unsigned char *ext, long extsize)
{
    int  i = h4spec_find(s, tag, ref);
    long k;
    (void)size;
    if (i < 0) { s->err = "element not in directory"; return -1; }
    if (!(s->tag[i] & H4S_SPECIAL)) {
        for (k = 0; k < s->len[i] && k < max; k++) out[k] = b[s->off[i] + k];
        return s->len[i];
    }
    {
        const unsigned char *h = b + s->off[i];
        long sp = h4s_be(h, 2);
        if (s->len[i] < 2) { s->err = "special header too short"; return -1; }
        if (sp == 1) { /* linked blocks: length(4) block_length(4) number_blocks(4) link_ref(2) */
            long total, blen, nb, lref, first_len = -1, pos = 0, guard = 0;
            if (s->len[i] < 16) { s->err = "linked-block header too short"; return -1; }
            total = h4s_sbe32(h + 2); blen = h4s_sbe32(h + 6); nb = h4s_sbe32(h + 10); lref = h4s_be(h + 14, 2);
            if (total < 0 || blen <= 0 || nb <= 0) { s->err = "linked-block header fields out of range"; return -1; }
            for (k = 0; k < total && k < max; k++) out[k] = 0;
            while (lref != 0 && guard++ < 16) {
                int  t = h4spec_find_exact(s, H4S_TAG_LINKED, (int)lref), q;
                const unsigned char *tb;
                if (t < 0) { s->err = "link table missing"; return -1; }
                if (s->len[t] != 2 + 2 * nb) { s->err = "link table has the wrong size"; return -1; }
                tb = b + s->off[t];
                for (q = 0; q < nb; q++) {
                    long bref = h4s_be(tb + 2 + 2 * q, 2), cap;
                    int  d = -1;
                    if (bref != 0) {
                        d = h4spec_find_exact(s, H4S_TAG_LINKED, (int)bref);
                        if (d < 0) { s->err = "data block missing"; return -1; }
                    }
                    if (first_len < 0) { /* the first block may have its own length (converted element) */
                        first_len = (d >= 0 && s->len[d] != blen && pos == 0) ? s->len[d] : blen;
                        cap = first_len;
                    }
                    else
                        cap = blen;
                    if (d >= 0)
                        for (k = 0; k < cap && k < s->len[d] && pos + k < total && pos + k < max; k++) out[pos + k] = b[s->off[d] + k];
                    pos += cap;
                }
                lref = h4s_be(tb, 2);
            }
            if (pos < total) { s->err = "linked blocks shorter than the recorded length"; return -1; }
            return total;
        }
        if (sp == 2) { /* external: length(4) offset(4) fname_len(4) fname */
            long total, eoff;
            if (s->len[i] < 14) { s->err = "external header too short"; return -1; }
            total = h4s_sbe32(h + 2); eoff = h4s_sbe32(h + 6);
            if (total < 0 || eoff < 0) { s->err = "external header fields out of range"; return -1; }
            if (!ext || eoff + total > extsize) { s->err = "external data beyond the external file"; return -1; }
            for (k = 0; k < total && k < max; k++) out[k] = ext[eoff + k];
            return total;
        }
        s->err = "special element kind not handled by the validator";
        return -2;
    }
}
#endif
