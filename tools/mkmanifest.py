#!/usr/bin/env python3
"""Regenerates /verif/MANIFEST.json from the check modules (checks/Cxx.py: META['manifest'])."""
import importlib, json, os, sys
VERIF = os.path.dirname(os.path.dirname(os.path.abspath(__file__)))
sys.path.insert(0, VERIF)
ALL = ["C%02d" % i for i in range(1, 21)]
checks, na = [], []
for pid in ALL:
    try:
        mod = importlib.import_module("checks." + pid)
    except ModuleNotFoundError:
        na.append(dict(property_id=pid, reason="no check registered yet (work in progress; see DESIGN.md section 3 for the planned harnesses)"))
        continue
    m = mod.META.get("manifest")
    if not m or m.get("not_applicable"):
        na.append(dict(property_id=pid, reason=(m or {}).get("not_applicable", "not registered")))
        continue
    checks.append(dict(
        property_id=pid,
        quick_cmd="bin/check %s --tier quick" % pid,
        thorough_cmd="bin/check %s --tier thorough" % pid,
        evidence_file="/verif/evidence/%s.json" % pid,
        replay_cmd_template="bin/check --replay {path}",
        engine="h4v-cbmc",
        level_claimed=dict(category="model_checking", text=m["level"], design_ref=m.get("design_ref", "DESIGN.md section 3 " + pid)),
        level_note=m["note"],
        technique=m.get("technique", "CBMC bounded model checking (SAT) of the real C sources"),
    ))
man = dict(
    version=1,
    setup_cmd="python3 tools/setup.py",
    hooks=dict(guard="H4_VERIF", enable="checks compile /repo sources with goto-cc -DH4_VERIF (engine/h4v.py base_flags)",
               baseline_off_cmd="cd /repo && cmake -G Ninja -B _build >/dev/null && cmake --build _build >/dev/null && ctest --test-dir _build -j8 --timeout 900",
               source_commits=["a69dd23", "613223f"], add_only=True),
    engines=[dict(name="h4v-cbmc", path="engine/h4v.py", serves_properties=[c["property_id"] for c in checks],
                  kind_free_text="goto-cc build of /repo's working tree + CBMC 6.11 bounded model checking; counterexamples replayed natively (gcc+ASan) against the real sources")],
    checks=checks,
    notes="Every verdict is bounded (see evidence coverage.bounds); exit 0 = all queries concluded and held, 1 = VIOLATION (replay file written), 2 = inconclusive (timeout/OOM/build) - never folded into 0.",
    not_applicable=na,
)
json.dump(man, open(os.path.join(VERIF, "MANIFEST.json"), "w"), indent=1)
print("MANIFEST.json: %d checks, %d not_applicable" % (len(checks), len(na)))
