#!/bin/bash
# usage: tools/try_mutant.sh <seeded-dir> <check> [--only regex]   — applies the patch to /repo, runs the check, reverts.
d=$1; shift
cd /repo && git diff --quiet || { echo "/repo not clean"; exit 9; }
git -C /repo apply /verif/$d/patch.diff || exit 9
cd /verif && bin/check "$@" > /tmp/mut_$(basename $d)_$1.log 2>&1; rc=$?
git -C /repo checkout -- .
echo "mutant=$d check=$* exit=$rc"; grep -c "^VIOLATION" /tmp/mut_$(basename $d)_$1.log; grep "reproduced\|unconfirmed" /tmp/mut_$(basename $d)_$1.log | head -5 | cut -c1-220
