#!/usr/bin/env python3
"""setup: nothing to build ahead of time (checks rebuild from /repo on every run);
verifies the tools are present and keeps a fallback copy of the cmake-generated h4config.h."""
import os, shutil, subprocess, sys
VERIF = os.path.dirname(os.path.dirname(os.path.abspath(__file__)))
for t in ("cbmc", "goto-cc", "gcc", "clang-14"):
    if not shutil.which(t):
        print("missing tool:", t); sys.exit(1)
cfg = os.path.join(VERIF, "models", "cfg", "h4config.h")
if not os.path.exists("/repo/_build/h4config.h") and not os.path.exists(cfg):
    print("no h4config.h (neither /repo/_build nor models/cfg)"); sys.exit(1)
os.makedirs(os.path.join(VERIF, "evidence"), exist_ok=True)
os.makedirs(os.path.join(VERIF, "replay"), exist_ok=True)
print("setup ok")
