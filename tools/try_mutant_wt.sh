#!/bin/bash
# usage: tools/try_mutant_wt.sh <seeded-dir> <check> [--only regex]
# Same as try_mutant.sh but leaves /repo alone: the patch is applied to a scratch worktree of /repo's HEAD
# under /tmp and the check is pointed at it with H4V_REPO (for use while other runs are reading /repo).
d=$1; shift
wt=/tmp/repo_mut_$$
git -C /repo worktree add -q --detach $wt HEAD || exit 9
git -C $wt apply /verif/$d/patch.diff || { git -C /repo worktree remove --force $wt; exit 9; }
cd /verif && H4V_REPO=$wt H4V_EVIDENCE_SUFFIX=.partial bin/check "$@" > /tmp/mut_$(basename $d)_$1.log 2>&1; rc=$?
git -C /repo worktree remove --force $wt
echo "mutant=$d check=$* exit=$rc"; grep -E "^VIOLATION|^KNOWN|reproduced|unconfirmed|INCONCLUSIVE" /tmp/mut_$(basename $d)_$1.log | head -6 | cut -c1-220
