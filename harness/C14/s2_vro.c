/* C14.S2 — V/VS/GR/AN-level mutators on a read-only file handle; whole real libhdf
 * on memio; stored values symbolic.  Every call that would have to write through the
 * read-only handle must return its failure value; the file bytes and the write log
 * must be untouched; reads keep working. */
#include "hdf.h"
#include "h4v.h"
#include "memio.h"
H4V_IN_ARR(uint8_t, pay, 24);
static unsigned char copy[MEMIO_DISK_SZ];

void harness(void)
{
    int32 f, vs, vg, vsref, vgref, gr, ri, an, ann, dims[2] = {2, 2}, st[2] = {0, 0}, ed[2] = {2, 2};
    long  i, size, log0;
    uint8 out[8];
    H4V_GET_ARR(pay, 24);
    /* build */
    f = Hopen("t.hdf", DFACC_CREATE, 16);
    H4V_ASSERT(f != FAIL && Vstart(f) == SUCCEED, "C14.S2.build.open");
    vs = VSattach(f, -1, "w");
    H4V_ASSERT(vs != FAIL && VSfdefine(vs, "A", DFNT_INT16, 1) == SUCCEED && VSsetfields(vs, "A") == SUCCEED && VSsetname(vs, "tbl") == SUCCEED, "C14.S2.build.vs");
    H4V_ASSERT(VSwrite(vs, pay, 2, FULL_INTERLACE) == 2, "C14.S2.build.vswrite");
    vsref = VSQueryref(vs);
    vg = Vattach(f, -1, "w");
    H4V_ASSERT(vg != FAIL && Vsetname(vg, "grp") == SUCCEED && Vinsert(vg, vs) != FAIL, "C14.S2.build.vg");
    vgref = VQueryref(vg);
    H4V_ASSERT(Vdetach(vg) == SUCCEED && VSdetach(vs) == SUCCEED, "C14.S2.build.detach");
#if WITHGR
    gr = GRstart(f);
    ri = GRcreate(gr, "img", 1, DFNT_UINT8, MFGR_INTERLACE_PIXEL, dims);
    H4V_ASSERT(gr != FAIL && ri != FAIL && GRwriteimage(ri, st, NULL, ed, pay + 8) == SUCCEED, "C14.S2.build.gr");
    H4V_ASSERT(GRendaccess(ri) == SUCCEED && GRend(gr) == SUCCEED, "C14.S2.build.grend");
#endif
#if WITHAN
    an = ANstart(f);
    ann = ANcreate(an, DFTAG_VH, (uint16)vsref, AN_DATA_DESC);
    H4V_ASSERT(an != FAIL && ann != FAIL && ANwriteann(ann, (const char *)pay + 12, 6) == SUCCEED && ANendaccess(ann) == SUCCEED && ANend(an) == SUCCEED, "C14.S2.build.an");
#endif
    H4V_ASSERT(Vend(f) == SUCCEED && Hclose(f) == SUCCEED, "C14.S2.build.close");
    size = memio_files[0].size;
    for (i = 0; i < size; i++) copy[i] = memio_files[0].data[i];
    log0 = memio_nlog;
    /* read-only session */
    f = Hopen("t.hdf", DFACC_READ, 0);
    H4V_ASSERT(f != FAIL && Vstart(f) == SUCCEED, "C14.S2.ro.open");
    H4V_ASSERT(Vattach(f, -1, "w") == FAIL, "C14.S2.ro.vcreate: new vgroup created on a read-only file");
    H4V_ASSERT(VSattach(f, -1, "w") == FAIL, "C14.S2.ro.vscreate: new vdata created on a read-only file");
    H4V_ASSERT(Vattach(f, vgref, "w") == FAIL, "C14.S2.ro.vattachw: write attach to a vgroup of a read-only file succeeded");
    H4V_ASSERT(VSattach(f, vsref, "w") == FAIL, "C14.S2.ro.vsattachw: write attach to a vdata of a read-only file succeeded");
    vg = Vattach(f, vgref, "r");
    vs = VSattach(f, vsref, "r");
    H4V_ASSERT(vg != FAIL && vs != FAIL, "C14.S2.ro.attach");
    H4V_ASSERT(Vsetname(vg, "x") == FAIL, "C14.S2.ro.vsetname: rename through a read-only vgroup handle succeeded");
    H4V_ASSERT(Vsetclass(vg, "x") == FAIL, "C14.S2.ro.vsetclass");
    H4V_ASSERT(Vaddtagref(vg, 1000, 1) == FAIL, "C14.S2.ro.vaddtagref: member added through a read-only vgroup handle");
    H4V_ASSERT(Vdeletetagref(vg, DFTAG_VH, vsref) == FAIL, "C14.S2.ro.vdeletetagref: member deleted through a read-only vgroup handle");
    H4V_ASSERT(Vsetattr(vg, "a", DFNT_UINT8, 1, pay) == FAIL, "C14.S2.ro.vsetattr");
    H4V_ASSERT(VSsetname(vs, "x") == FAIL, "C14.S2.ro.vssetname: rename through a read-only vdata handle succeeded");
    H4V_ASSERT(VSsetattr(vs, _HDF_VDATA, "a", DFNT_UINT8, 1, pay) == FAIL, "C14.S2.ro.vssetattr");
    H4V_ASSERT(VSsetfields(vs, "A") == SUCCEED, "C14.S2.ro.setfields");
    H4V_ASSERT(VSwrite(vs, pay, 1, FULL_INTERLACE) == FAIL, "C14.S2.ro.vswrite: record written through a read-only vdata handle");
    H4V_ASSERT(VSread(vs, out, 2, FULL_INTERLACE) == 2 && out[0] == pay[0] && out[3] == pay[3], "C14.S2.ro.vsread: read through the read-only handle broken");
    H4V_ASSERT(Vntagrefs(vg) == 1, "C14.S2.ro.vntagrefs: membership changed by refused calls");
    H4V_ASSERT(Vdetach(vg) == SUCCEED && VSdetach(vs) == SUCCEED, "C14.S2.ro.detach");
    H4V_ASSERT(Vdelete(f, vgref) == FAIL, "C14.S2.ro.vdelete: vgroup deleted on a read-only file");
    H4V_ASSERT(VSdelete(f, vsref) == FAIL, "C14.S2.ro.vsdelete: vdata deleted on a read-only file");
#if WITHGR
    gr = GRstart(f);
    H4V_ASSERT(gr != FAIL, "C14.S2.ro.grstart");
    H4V_ASSERT(GRcreate(gr, "new", 1, DFNT_UINT8, MFGR_INTERLACE_PIXEL, dims) == FAIL, "C14.S2.ro.grcreate: image created on a read-only file");
    ri = GRselect(gr, 0);
    H4V_ASSERT(ri != FAIL, "C14.S2.ro.grselect");
    H4V_ASSERT(GRwriteimage(ri, st, NULL, ed, pay) == FAIL, "C14.S2.ro.grwrite: image written on a read-only file");
    H4V_ASSERT(GRsetattr(ri, "a", DFNT_UINT8, 1, pay) == FAIL, "C14.S2.ro.grsetattr");
    H4V_ASSERT(GRreadimage(ri, st, NULL, ed, out) == SUCCEED && out[1] == pay[9], "C14.S2.ro.grread");
    H4V_ASSERT(GRendaccess(ri) == SUCCEED && GRend(gr) == SUCCEED, "C14.S2.ro.grend: closing the GR interface of a read-only file failed");
#endif
#if WITHAN
    an = ANstart(f);
    H4V_ASSERT(an != FAIL, "C14.S2.ro.anstart");
    ann = ANcreate(an, DFTAG_VH, (uint16)vsref, AN_DATA_LABEL);
    if (ann != FAIL)
        H4V_ASSERT(ANwriteann(ann, "lab", 3) == FAIL, "C14.S2.ro.anwrite: annotation written on a read-only file");
    H4V_ASSERT(ANend(an) == SUCCEED, "C14.S2.ro.anend");
#endif
    H4V_ASSERT(Vend(f) == SUCCEED, "C14.S2.ro.vend");
    H4V_ASSERT(Hclose(f) == SUCCEED, "C14.S2.ro.close: closing the read-only handle failed");
    H4V_ASSERT(memio_nlog == log0, "C14.nowrite: a write reached the file while it was open read-only");
    H4V_ASSERT(!memio_ro_write_attempt, "C14.rowrite: the library attempted to write to a read-only stream");
    H4V_ASSERT(memio_files[0].size == size, "C14.size: file size changed under read-only access");
    for (i = 0; i < size; i++) H4V_ASSERT(memio_files[0].data[i] == copy[i], "C14.bytes: file bytes changed under read-only access");
    (void)gr; (void)ri; (void)an; (void)ann; (void)dims; (void)st; (void)ed;
    H4V_WITNESS();
}
