/* C06.K1 — number-type conversion kernels (real dfconv.c, dfkswap.c, dfknat.c).
 * Build parameters: NT (base number type), FL (0 | DFNT_NATIVE | DFNT_LITEND), SZ (bytes).
 * Symbolic: element count 1..3, source/destination strides (0,0 or >= SZ each),
 * in-place vs separate buffers, direction (to file / from file), every byte of
 * the source and destination buffers. */
#include "hdf.h"
#include "h4v.h"
#define MAXN 3
#define BUF  (MAXN * (SZ + 2))
H4V_IN_ARR(uint8_t, src, BUF);
H4V_IN_ARR(uint8_t, dst0, BUF);
H4V_IN(uint8_t, n);
H4V_IN(uint8_t, ss);
H4V_IN(uint8_t, ds);
H4V_IN(uint8_t, inplace);
H4V_IN(uint8_t, rd);
H4V_IN(uint8_t, pick_e);
H4V_IN(uint8_t, pick_k);
H4V_IN(uint8_t, pick_g);

void harness(void)
{
    uint8 a[BUF], b[BUF], c[BUF];
    int   i, e, k, swap, sse, dse, r;
    int32 nt = NT | FL;
    H4V_GET_ARR(src, BUF); H4V_GET_ARR(dst0, BUF);
    H4V_GET(n); H4V_GET(ss); H4V_GET(ds); H4V_GET(inplace); H4V_GET(rd);
    H4V_GET(pick_e); H4V_GET(pick_k); H4V_GET(pick_g);
#ifdef FIX_N /* geometry enumerated by the generator instead of symbolic (8-byte types) */
    n = FIX_N; ss = FIX_SS; ds = FIX_DS; inplace = FIX_INPLACE;
#endif
    H4V_ASSUME(n >= 1 && n <= MAXN);
    H4V_ASSUME((ss == 0 && ds == 0) || (ss >= SZ && ss <= SZ + 2 && ds >= SZ && ds <= SZ + 2));
    H4V_ASSUME(inplace <= 1 && rd <= 1);
    H4V_ASSUME(!inplace || ss == ds);
    for (i = 0; i < BUF; i++) { a[i] = src[i]; b[i] = inplace ? src[i] : dst0[i]; }
    sse = ss ? ss : SZ; dse = ds ? ds : SZ;
    /* the file representation is big-endian for standard types; this machine is little-endian */
    swap = (FL == 0 && SZ > 1);
    H4V_ASSERT(DFKNTsize(nt) == SZ, "C06.K1.size: DFKNTsize differs from the type's size");
    if (inplace)
        r = DFKconvert(b, b, nt, n, rd ? DFACC_READ : DFACC_WRITE, ss, ds);
    else
        r = DFKconvert(a, b, nt, n, rd ? DFACC_READ : DFACC_WRITE, ss, ds);
    H4V_ASSERT(r == 0, "C06.K1.ret: conversion of a supported type failed");
    /* one arbitrary element/byte, chosen by the solver */
    H4V_ASSUME(pick_e < n && pick_k < SZ);
    e = pick_e; k = pick_k;
    if (swap)
        H4V_ASSERT(b[e * dse + k] == src[e * sse + (SZ - 1 - k)], "C06.K1.order: standard type not byte-reversed to big-endian");
    else
        H4V_ASSERT(b[e * dse + k] == src[e * sse + k], "C06.K1.ident: native/little-endian type altered by conversion");
    /* source untouched when converting between buffers */
    if (!inplace)
        for (i = 0; i < BUF; i++) H4V_ASSERT(a[i] == src[i], "C06.K1.srcconst: source buffer modified");
    /* gap bytes between strided destination elements, and bytes after the last element, untouched */
    H4V_ASSUME(pick_g < BUF);
    {
        int g = pick_g, ingap = 1;
        for (e = 0; e < n; e++) if (g >= e * dse && g < e * dse + SZ) ingap = 0;
        if (ingap && !inplace)
            H4V_ASSERT(b[g] == dst0[g], "C06.K1.gap: byte outside the converted elements modified");
        if (ingap && inplace)
            H4V_ASSERT(b[g] == src[g], "C06.K1.gap.inplace: byte outside the converted elements modified");
    }
    /* round trip: converting back (other direction, contiguous) restores the bit patterns */
    for (i = 0; i < BUF; i++) c[i] = 0;
    r = DFKconvert(b, c, nt, n, rd ? DFACC_WRITE : DFACC_READ, ds, ds ? SZ : 0);
    if (ds == 0 || 1) {
        H4V_ASSERT(r == 0, "C06.K1.ret2");
        H4V_ASSERT(c[pick_e * SZ + pick_k] == src[pick_e * sse + pick_k], "C06.K1.roundtrip: value changed by a to-file/from-file round trip");
    }
#if defined(ARITH) && SZ == 2
    { uint16 v = (uint16)(src[pick_e * sse] | (src[pick_e * sse + 1] << 8));
      H4V_ASSERT(b[pick_e * dse] == (uint8)(v >> 8) && b[pick_e * dse + 1] == (uint8)v, "C06.K1.msb16: file image is not MSB first"); }
#endif
#if defined(ARITH) && SZ == 4
    { uint32 v = (uint32)src[pick_e * sse] | ((uint32)src[pick_e * sse + 1] << 8) | ((uint32)src[pick_e * sse + 2] << 16) | ((uint32)src[pick_e * sse + 3] << 24);
      H4V_ASSERT(b[pick_e * dse] == (uint8)(v >> 24) && b[pick_e * dse + 1] == (uint8)(v >> 16) && b[pick_e * dse + 2] == (uint8)(v >> 8) && b[pick_e * dse + 3] == (uint8)v, "C06.K1.msb32: file image is not MSB first"); }
#endif
    H4V_WITNESS();
}
