/* C12.K1 — descriptor search and reference allocation over a SYMBOLIC descriptor list.
 * Real hfiledd.c (HTIfind_dd, Hnewref) and atom.c; the file record is built directly:
 * two DD blocks (3 + 2 descriptors) whose tags and refs are arbitrary 16-bit values
 * (tag 1 = empty slot), in arbitrary order.
 *  MODE 0  Hnewref: reference counter anywhere in 0..65535.  The returned ref is not
 *          used by any live descriptor; below the maximum it is counter+1; at the maximum
 *          it is the smallest unused ref.
 *  MODE 1  HTIfind_dd with at least one wildcard, either direction, from an arbitrary
 *          cursor: the answer is the first live match after/before the cursor in list
 *          order (reference loop below), FAIL exactly when there is none. */
#include "hdf.h"
#include "h4v.h"
#include "hfiledd.c"
#define NB0 3
#define NB1 2
#define ND  (NB0 + NB1)
H4V_IN_ARR(uint16_t, tg, ND);
H4V_IN_ARR(uint16_t, rf, ND);
H4V_IN(uint16_t, maxref);
H4V_IN(uint16_t, ltag);
H4V_IN(uint16_t, lref);
H4V_IN(uint8_t, cur);
H4V_IN(uint8_t, dir);

static filerec_t frec;
static ddblock_t blk0, blk1;
static dd_t      l0[NB0], l1[NB1];

static dd_t *slot(int i) { return i < NB0 ? &l0[i] : &l1[i - NB0]; }

static void build(void)
{
    int i;
    memset(&frec, 0, sizeof frec);
    memset(&blk0, 0, sizeof blk0);
    memset(&blk1, 0, sizeof blk1);
    blk0.ndds = NB0; blk0.ddlist = l0; blk0.next = &blk1; blk0.prev = NULL; blk0.frec = &frec;
    blk1.ndds = NB1; blk1.ddlist = l1; blk1.next = NULL; blk1.prev = &blk0; blk1.frec = &frec;
    for (i = 0; i < ND; i++) {
        dd_t *d = slot(i);
        d->tag = tg[i]; d->ref = rf[i]; d->offset = 0; d->length = 0; d->blk = i < NB0 ? &blk0 : &blk1;
    }
    frec.refcount = 1; frec.ddhead = &blk0; frec.ddlast = &blk1; frec.ddnull = NULL; frec.ddnull_idx = -1;
    frec.maxref = maxref; frec.cache = 1;
}

static int used(uint16 r)
{
    int i;
    for (i = 0; i < ND; i++)
        if (tg[i] != DFTAG_NULL && rf[i] == r)
            return 1;
    return 0;
}

void harness(void)
{
    int i;
    H4V_GET_ARR(tg, ND); H4V_GET_ARR(rf, ND); H4V_GET(maxref); H4V_GET(ltag); H4V_GET(lref); H4V_GET(cur); H4V_GET(dir);
    build();
#if MODE == 0
    {
        int32  fid;
        uint16 r;
        H4V_ASSERT(HAinit_group(FIDGROUP, 4) == SUCCEED, "C12.K1.init");
        fid = HAregister_atom(FIDGROUP, &frec);
        H4V_ASSERT(fid != FAIL, "C12.K1.register");
        /* a counter below the maximum is, by the library's own bookkeeping, at least the largest ref in use */
        if (maxref < MAX_REF)
            for (i = 0; i < ND; i++) H4V_ASSUME(tg[i] == DFTAG_NULL || rf[i] <= maxref);
        r = Hnewref(fid);
        H4V_ASSERT(r != 0, "C12.K1.newref.none: no reference returned although at most 5 are in use");
        H4V_ASSERT(!used(r), "C12.K1.newref.unique: Hnewref returned a reference that a live descriptor already uses");
        if (maxref < MAX_REF)
            H4V_ASSERT(r == (uint16)(maxref + 1) && frec.maxref == r, "C12.K1.newref.next: below the maximum the next reference is counter+1");
        else
            for (i = 1; i < ND + 1; i++)
                if (i < r) H4V_ASSERT(used((uint16)i), "C12.K1.newref.smallest: a smaller unused reference was skipped");
    }
#else
    {
        dd_t *p, *exp = NULL;
        int   start, rc, k;
        uint16 stag = MKSPECIALTAG(ltag);
        H4V_ASSUME(ltag == DFTAG_WILDCARD || lref == DFREF_WILDCARD); /* exact pairs go through the tag tree (scenario checks) */
        H4V_ASSUME(ltag != DFTAG_NULL);                              /* empty-slot lookup has its own cursor */
        cur = CUR; dir = DIR; /* cursor position and direction enumerated by the plan (a symbolic cursor pointer does not finish) */
        p = cur == ND ? NULL : slot(cur);
        if (dir == 0) {
            start = cur == ND ? 0 : cur + 1;
            for (k = start; k < ND; k++)
                if (tg[k] != DFTAG_NULL && (ltag == DFTAG_WILDCARD || tg[k] == ltag || (stag != DFTAG_NULL && tg[k] == stag)) &&
                    (lref == DFREF_WILDCARD || rf[k] == lref)) { exp = slot(k); break; }
        }
        else {
            start = cur == ND ? ND - 1 : cur - 1;
            for (k = start; k >= 0; k--)
                if (tg[k] != DFTAG_NULL && (ltag == DFTAG_WILDCARD || tg[k] == ltag || (stag != DFTAG_NULL && tg[k] == stag)) &&
                    (lref == DFREF_WILDCARD || rf[k] == lref)) { exp = slot(k); break; }
        }
        rc = HTIfind_dd(&frec, ltag, lref, &p, dir == 0 ? DF_FORWARD : DF_BACKWARD);
        if (exp == NULL)
            H4V_ASSERT(rc == FAIL, "C12.K1.find.phantom: a descriptor was reported although none matches");
        else {
            H4V_ASSERT(rc == SUCCEED, "C12.K1.find.missed: a matching live descriptor was not found");
            H4V_ASSERT(p == exp, "C12.K1.find.order: not the first matching descriptor in search order");
        }
        for (k = 0; k < ND; k++)
            H4V_ASSERT(slot(k)->tag == tg[k] && slot(k)->ref == rf[k], "C12.K1.find.pure: the search modified a descriptor");
    }
#endif
    H4V_WITNESS();
}
