/* C10.S2 — SD attributes and the predefined metadata built on them, within one SD
 * session (real mfhdf + libhdf on memio).  Names, types, counts and the call history
 * are concrete (MODE); every value byte is symbolic.
 *  MODE 0  user attributes on the file, a dataset and a dimension: set, query by name and
 *          by index, replace one (same and different type/count), the others keep index
 *          and value; duplicate-prefix names.
 *  MODE 1  predefined metadata: fill value, valid range, calibration, data strings,
 *          dimension name / scale / strings; each reads back what was set, the attribute
 *          list of the object shows them once, and the lookups name <-> index <-> ref agree.
 * The SDend/SDstart clause is outside this harness (see checks/C10.py). */
#include "mfhdf.h"
#include "h4v.h"
#include "memio.h"
#ifndef REOPEN
#define REOPEN 0
#endif
H4V_IN_ARR(uint8_t, val, 64);

typedef struct { const char *name; int32 type; int count; int size; } adef_t;
static const adef_t A[] = {{"unitx", DFNT_UINT8, 3, 3}, {"scale", DFNT_INT16, 2, 4}, {"unit", DFNT_UINT8, 2, 2}, {"big", DFNT_INT32, 2, 8}};
#define NA 4
static uint8 G[3][NA][8]; /* ghost: [object][attr][byte] */
static int   Gt[3][NA], Gc[3][NA], Gs[3][NA];

static void check_obj(int32 id, int o, int extra)
{
    int   i, k;
    char  nm[H4_MAX_NC_NAME + 1];
    int32 t, c;
    uint8 out[12];
    for (i = 0; i < NA; i++) {
        H4V_ASSERT(SDfindattr(id, A[i].name) == i + extra, "C10.S2.findattr: lookup by name returns another index");
        H4V_ASSERT(SDattrinfo(id, i + extra, nm, &t, &c) == SUCCEED, "C10.S2.attrinfo");
        H4V_ASSERT(t == Gt[o][i] && c == Gc[o][i] && strcmp(nm, A[i].name) == 0, "C10.S2.attrinfo.values: type/count/name differ from what was set");
        for (k = 0; k < 12; k++) out[k] = 0x3C;
        H4V_ASSERT(SDreadattr(id, i + extra, out) == SUCCEED, "C10.S2.readattr");
        for (k = 0; k < Gs[o][i]; k++) H4V_ASSERT(out[k] == G[o][i][k], "C10.S2.value: attribute value differs from the value last set");
        for (k = Gs[o][i]; k < 12; k++) H4V_ASSERT(out[k] == 0x3C, "C10.S2.overrun: attribute read wrote past the attribute's size");
    }
    H4V_ASSERT(SDfindattr(id, "uni") == FAIL, "C10.S2.prefix: a prefix of an attribute name was found");
    H4V_ASSERT(SDfindattr(id, "unitxy") == FAIL, "C10.S2.longer: a longer name matched a shorter attribute");
    H4V_ASSERT(SDattrinfo(id, NA + extra, nm, &t, &c) == FAIL, "C10.S2.count: more attributes than were set");
}

static void set(int32 id, int o, int i, int32 type, int count, int size, int p)
{
    int k;
    H4V_ASSERT(SDsetattr(id, A[i].name, type, count, &val[p]) == SUCCEED, "C10.S2.setattr");
    for (k = 0; k < size; k++) G[o][i][k] = val[p + k];
    Gt[o][i] = type; Gc[o][i] = count; Gs[o][i] = size;
}

void harness(void)
{
    int32 sd, sds, dim, dims[2] = {2, 3}, nds, nfa, rk, dd[2], nt, na;
    char  nm[H4_MAX_NC_NAME + 1];
    int   i, o, p = 0;
    H4V_GET_ARR(val, 64);
    sd = SDstart("t.hdf", DFACC_CREATE);
    H4V_ASSERT(sd != FAIL, "C10.S2.start");
    sds = SDcreate(sd, "v", DFNT_INT16, 2, dims);
    H4V_ASSERT(sds != FAIL, "C10.S2.create");
    dim = SDgetdimid(sds, 1);
    H4V_ASSERT(dim != FAIL, "C10.S2.getdimid");
#if MODE == 0
    {
        int32 ids[3];
        ids[0] = sd; ids[1] = sds; ids[2] = dim;
        for (o = 0; o < 3; o++)
            for (i = 0; i < NA; i++) { set(ids[o], o, i, A[i].type, A[i].count, A[i].size, p); p += A[i].size; if (p > 40) p = 0; }
        for (o = 0; o < 3; o++) check_obj(ids[o], o, 0);
        /* replace: same type/count on the dataset, different type and count on the file and the dimension */
        set(sds, 1, 1, A[1].type, A[1].count, A[1].size, 44);
        set(sd, 0, 2, DFNT_INT32, 1, 4, 48);
        set(dim, 2, 0, DFNT_UINT16, 2, 4, 52);
        for (o = 0; o < 3; o++) check_obj(ids[o], o, 0);
        H4V_ASSERT(SDfileinfo(sd, &nds, &nfa) == SUCCEED && nfa == NA, "C10.S2.fileinfo: number of file attributes differs");
        H4V_ASSERT(SDgetinfo(sds, nm, &rk, dd, &nt, &na) == SUCCEED && na == NA, "C10.S2.getinfo: number of dataset attributes differs");
        { int32 sz, dnt, dna; H4V_ASSERT(SDdiminfo(dim, nm, &sz, &dnt, &dna) == SUCCEED && dna == NA && sz == 3, "C10.S2.diminfo: number of dimension attributes differs"); }
#if REOPEN /* everything survives SDend + SDstart (read mode) */
        H4V_ASSERT(SDendaccess(sds) == SUCCEED && SDend(sd) == SUCCEED, "C10.S2.end");
        sd = SDstart("t.hdf", DFACC_READ);
        H4V_ASSERT(sd != FAIL, "C10.S2.restart");
        sds = SDselect(sd, SDnametoindex(sd, "v"));
        H4V_ASSERT(sds != FAIL, "C10.S2.reselect");
        dim = SDgetdimid(sds, 1);
        H4V_ASSERT(dim != FAIL, "C10.S2.regetdimid");
        ids[0] = sd; ids[1] = sds; ids[2] = dim;
        for (o = 0; o < 3; o++) check_obj(ids[o], o, 0);
#endif
    }
#else
    {
        int16   fill, fo = 0, mx, mn, omx = 0, omn = 0, sc[3], osc[3];
        float64 cal[4], ocal[4];
        int32   cnt = 0, ont = 0, k;
        char    l[16], u[16], f[16], cs[16];
        memcpy(&fill, &val[0], 2); memcpy(&mx, &val[2], 2); memcpy(&mn, &val[4], 2);
        memcpy(sc, &val[8], 6);
        for (k = 0; k < 4; k++) cal[k] = (float64)(int8)val[16 + k];
        H4V_ASSERT(SDsetfillvalue(sds, &fill) == SUCCEED, "C10.S2.setfill");
        H4V_ASSERT(SDsetrange(sds, &mx, &mn) == SUCCEED, "C10.S2.setrange");
        H4V_ASSERT(SDsetcal(sds, cal[0], cal[1], cal[2], cal[3], DFNT_INT8) == SUCCEED, "C10.S2.setcal");
        H4V_ASSERT(SDsetdatastrs(sds, "lbl", "un", NULL, "cs") == SUCCEED, "C10.S2.setdatastrs");
        H4V_ASSERT(SDsetdimname(dim, "xdim") == SUCCEED, "C10.S2.setdimname");
        H4V_ASSERT(SDsetdimscale(dim, 3, DFNT_INT16, sc) == SUCCEED, "C10.S2.setdimscale");
        H4V_ASSERT(SDsetdimstrs(dim, "dl", NULL, "df") == SUCCEED, "C10.S2.setdimstrs");
        /* read back */
        H4V_ASSERT(SDgetfillvalue(sds, &fo) == SUCCEED && fo == fill, "C10.S2.fill: fill value differs from the one set");
        H4V_ASSERT(SDgetrange(sds, &omx, &omn) == SUCCEED && omx == mx && omn == mn, "C10.S2.range: valid range differs from the one set");
        H4V_ASSERT(SDgetcal(sds, &ocal[0], &ocal[1], &ocal[2], &ocal[3], &cnt) == SUCCEED, "C10.S2.getcal");
        for (k = 0; k < 4; k++) H4V_ASSERT(ocal[k] == cal[k], "C10.S2.cal: calibration differs from the one set");
        H4V_ASSERT(cnt == DFNT_INT8, "C10.S2.cal.nt: calibrated number type differs");
        l[0] = u[0] = f[0] = cs[0] = 'Z';
        H4V_ASSERT(SDgetdatastrs(sds, l, u, f, cs, 16) == SUCCEED, "C10.S2.getdatastrs");
        H4V_ASSERT(strcmp(l, "lbl") == 0 && strcmp(u, "un") == 0 && f[0] == '\0' && strcmp(cs, "cs") == 0, "C10.S2.datastrs: data strings differ from the ones set");
        { int32 sz, dnt, dna;
          H4V_ASSERT(SDdiminfo(dim, nm, &sz, &dnt, &dna) == SUCCEED, "C10.S2.diminfo");
          H4V_ASSERT(strcmp(nm, "xdim") == 0 && sz == 3 && dnt == DFNT_INT16, "C10.S2.diminfo.values: dimension name/size/scale type differ"); }
        H4V_ASSERT(SDgetdimscale(dim, osc) == SUCCEED, "C10.S2.getdimscale");
        for (k = 0; k < 3; k++) H4V_ASSERT(osc[k] == sc[k], "C10.S2.scale: dimension scale differs from the one set");
        l[0] = u[0] = f[0] = 'Z';
        H4V_ASSERT(SDgetdimstrs(dim, l, u, f, 16) == SUCCEED, "C10.S2.getdimstrs");
        H4V_ASSERT(strcmp(l, "dl") == 0 && u[0] == '\0' && strcmp(f, "df") == 0, "C10.S2.dimstrs: dimension strings differ from the ones set");
        /* the predefined items are attributes: each present exactly once, readable through the generic calls */
        { int32 ix = SDfindattr(sds, "_FillValue"); int16 v2 = 0;
          H4V_ASSERT(ix != FAIL && SDattrinfo(sds, ix, nm, &ont, &cnt) == SUCCEED && ont == DFNT_INT16 && cnt == 1, "C10.S2.fillattr: _FillValue attribute missing or of the wrong type");
          H4V_ASSERT(SDreadattr(sds, ix, &v2) == SUCCEED && v2 == fill, "C10.S2.fillattr.value"); }
        { int32 ix = SDfindattr(sds, "valid_range"); int16 v2[2] = {0, 0};
          H4V_ASSERT(ix != FAIL && SDattrinfo(sds, ix, nm, &ont, &cnt) == SUCCEED && ont == DFNT_INT16 && cnt == 2, "C10.S2.rangeattr");
          H4V_ASSERT(SDreadattr(sds, ix, v2) == SUCCEED && v2[0] == mn && v2[1] == mx, "C10.S2.rangeattr.value: valid_range attribute is not (min,max)"); }
        /* a second set replaces, never duplicates */
        fill = (int16)(fill ^ 0x55);
        H4V_ASSERT(SDsetfillvalue(sds, &fill) == SUCCEED && SDgetfillvalue(sds, &fo) == SUCCEED && fo == fill, "C10.S2.fill.replace");
        H4V_ASSERT(SDgetinfo(sds, nm, &rk, dd, &nt, &na) == SUCCEED, "C10.S2.getinfo");
        { int32 seen = 0; for (k = 0; k < na; k++) { H4V_ASSERT(SDattrinfo(sds, k, nm, &ont, &cnt) == SUCCEED, "C10.S2.enum"); if (strcmp(nm, "_FillValue") == 0) seen++; }
          H4V_ASSERT(seen == 1, "C10.S2.fill.once: _FillValue listed more than once (or not at all)"); }
        /* lookups are mutually consistent */
        H4V_ASSERT(SDnametoindex(sd, "v") == 0 && SDselect(sd, 0) != FAIL, "C10.S2.nametoindex");
        { int32 ref = SDidtoref(sds); H4V_ASSERT(ref != FAIL && SDreftoindex(sd, ref) == 0, "C10.S2.reftoindex: reference lookup does not lead back to the dataset"); }
        H4V_ASSERT(SDnametoindex(sd, "xdim") == FAIL || SDiscoordvar(SDselect(sd, SDnametoindex(sd, "xdim"))), "C10.S2.coordvar: the scale's variable is not reported as a coordinate variable");
        (void)nds; (void)nfa; (void)i; (void)o; (void)p;
    }
#endif
    H4V_ASSERT(SDendaccess(sds) == SUCCEED, "C10.S2.endaccess");
    H4V_WITNESS();
}
