/* C10.S1 — attributes on Vdata, Vdata fields, Vgroups and raster images / the GR
 * file object; whole real libhdf on memio.  Names, types, counts and the history
 * are concrete (MODE); every attribute value byte is symbolic.
 * Checked: same type/count/values back by index and by name; replacing an existing
 * name with the same type/count replaces the value and keeps index and the other
 * attributes; changing type or count of a Vdata/Vgroup attribute fails and keeps the old
 * value; everything survives close and reopen (read mode, and write mode + later
 * addition). */
#include "hdf.h"
#include "h4v.h"
#include "memio.h"
H4V_IN_ARR(uint8_t, val, 96);

typedef struct { const char *name; int32 type; int count; int size; int findex; } adef_t;
/* attributes of the vdata: findex _HDF_VDATA = the vdata itself, 0 = first field */
static const adef_t VA[] = {{"unitx", DFNT_UINT8, 2, 2, _HDF_VDATA}, {"scale", DFNT_INT16, 2, 4, _HDF_VDATA}, {"f0", DFNT_INT32, 1, 4, 0},
                            {"unit", DFNT_UINT8, 2, 2, _HDF_VDATA}, {"f0", DFNT_FLOAT64, 1, 8, 1}};
#define NVA 5
static const adef_t GA[] = {{"titlex", DFNT_UINT16, 1, 2, 0}, {"rng", DFNT_INT32, 2, 8, 0}, {"title", DFNT_UINT16, 1, 2, 0}};
#define NGA 3
static uint8 Gv[NVA][8], Gg[NGA][8], Gr[NGA][8];

static void check_vs(int32 vs)
{
    int  i, k, idx[NVA], per[3] = {0, 0, 0};
    char nm[64];
    int32 t, c, sz;
    uint8 out[12];
    for (i = 0; i < NVA; i++) { int slot = VA[i].findex == _HDF_VDATA ? 2 : VA[i].findex; idx[i] = per[slot]++; }
    H4V_ASSERT(VSnattrs(vs) == NVA, "C10.S1.vs.nattrs: total number of vdata attributes differs");
    H4V_ASSERT(VSfnattrs(vs, _HDF_VDATA) == per[2] && VSfnattrs(vs, 0) == per[0] && VSfnattrs(vs, 1) == per[1], "C10.S1.vs.fnattrs: per-field attribute counts differ");
    for (i = 0; i < NVA; i++) {
        H4V_ASSERT(VSfindattr(vs, VA[i].findex, VA[i].name) == idx[i], "C10.S1.vs.findattr: lookup by name returns another index");
        H4V_ASSERT(VSattrinfo(vs, VA[i].findex, idx[i], nm, &t, &c, &sz) == SUCCEED, "C10.S1.vs.attrinfo");
        H4V_ASSERT(t == VA[i].type && c == VA[i].count && sz == VA[i].size && strcmp(nm, VA[i].name) == 0, "C10.S1.vs.attrinfo.values: type/count/size/name differ from what was set");
        for (k = 0; k < 12; k++) out[k] = 0x3C;
        H4V_ASSERT(VSgetattr(vs, VA[i].findex, idx[i], out) == SUCCEED, "C10.S1.vs.getattr");
        for (k = 0; k < VA[i].size; k++) H4V_ASSERT(out[k] == Gv[i][k], "C10.S1.vs.value: attribute value differs from the value last set");
        for (k = VA[i].size; k < 12; k++) H4V_ASSERT(out[k] == 0x3C, "C10.S1.vs.overrun");
    }
    H4V_ASSERT(VSfindattr(vs, _HDF_VDATA, "uni") == FAIL, "C10.S1.vs.prefix: a prefix of an attribute name was found");
}

static void check_vg(int32 vg)
{
    int  i, k;
    char nm[64];
    int32 t, c, sz;
    uint8 out[12];
    H4V_ASSERT(Vnattrs(vg) == NGA, "C10.S1.vg.nattrs");
    for (i = 0; i < NGA; i++) {
        H4V_ASSERT(Vfindattr(vg, GA[i].name) == i, "C10.S1.vg.findattr: lookup by name returns another index");
        H4V_ASSERT(Vattrinfo(vg, i, nm, &t, &c, &sz) == SUCCEED, "C10.S1.vg.attrinfo");
        H4V_ASSERT(t == GA[i].type && c == GA[i].count && sz == GA[i].size && strcmp(nm, GA[i].name) == 0, "C10.S1.vg.attrinfo.values");
        for (k = 0; k < 12; k++) out[k] = 0x3C;
        H4V_ASSERT(Vgetattr(vg, i, out) == SUCCEED, "C10.S1.vg.getattr");
        for (k = 0; k < GA[i].size; k++) H4V_ASSERT(out[k] == Gg[i][k], "C10.S1.vg.value: attribute value differs from the value last set");
        for (k = GA[i].size; k < 12; k++) H4V_ASSERT(out[k] == 0x3C, "C10.S1.vg.overrun");
    }
}

static void check_gr(int32 id, int base)
{
    int  i, k;
    char nm[64];
    int32 t, c;
    uint8 out[12];
    for (i = 0; i < NGA; i++) {
        int ix = GRfindattr(id, GA[i].name);
        H4V_ASSERT(ix == base + i, "C10.S1.gr.findattr: lookup by name returns another index");
        H4V_ASSERT(GRattrinfo(id, ix, nm, &t, &c) == SUCCEED, "C10.S1.gr.attrinfo");
        H4V_ASSERT(t == GA[i].type && c == GA[i].count && strcmp(nm, GA[i].name) == 0, "C10.S1.gr.attrinfo.values");
        for (k = 0; k < 12; k++) out[k] = 0x3C;
        H4V_ASSERT(GRgetattr(id, ix, out) == SUCCEED, "C10.S1.gr.getattr");
        for (k = 0; k < GA[i].size; k++) H4V_ASSERT(out[k] == Gr[i][k], "C10.S1.gr.value: attribute value differs from the value last set");
        for (k = GA[i].size; k < 12; k++) H4V_ASSERT(out[k] == 0x3C, "C10.S1.gr.overrun");
    }
}

void harness(void)
{
    int32 f, vs, vg, gr, ri, vsref, vgref, dims[2] = {2, 2};
    int   i, k, p = 0;
    uint8 pix[4] = {1, 2, 3, 4};
    H4V_GET_ARR(val, 96);
    f = Hopen("t.hdf", DFACC_CREATE, 16);
    H4V_ASSERT(f != FAIL && Vstart(f) == SUCCEED, "C10.S1.open");
#if MODE == 0 /* Vdata and Vdata-field attributes */
    vs = VSattach(f, -1, "w");
    H4V_ASSERT(vs != FAIL && VSfdefine(vs, "A", DFNT_INT16, 1) == SUCCEED && VSfdefine(vs, "B", DFNT_UINT8, 2) == SUCCEED && VSsetfields(vs, "A,B") == SUCCEED, "C10.S1.vs.def");
    H4V_ASSERT(VSsetname(vs, "tbl") == SUCCEED && VSwrite(vs, val, 1, FULL_INTERLACE) == 1, "C10.S1.vs.write");
    p = 8;
    for (i = 0; i < NVA; i++) {
        H4V_ASSERT(VSsetattr(vs, VA[i].findex, VA[i].name, VA[i].type, VA[i].count, &val[p]) == SUCCEED, "C10.S1.vs.setattr");
        for (k = 0; k < VA[i].size; k++) Gv[i][k] = val[p + k];
        p += 8;
    }
    /* replace (same type/count): value changes, index and the others stay */
    H4V_ASSERT(VSsetattr(vs, VA[1].findex, VA[1].name, VA[1].type, VA[1].count, &val[p]) == SUCCEED, "C10.S1.vs.replace");
    for (k = 0; k < VA[1].size; k++) Gv[1][k] = val[p + k];
    p += 8;
    /* change of type or count is refused and keeps the old value */
    H4V_ASSERT(VSsetattr(vs, VA[1].findex, VA[1].name, DFNT_INT32, VA[1].count, &val[p]) == FAIL, "C10.S1.vs.retype: changing an attribute's type was accepted");
    H4V_ASSERT(VSsetattr(vs, VA[2].findex, VA[2].name, VA[2].type, VA[2].count + 1, &val[p]) == FAIL, "C10.S1.vs.recount: changing an attribute's count was accepted");
    check_vs(vs);
    vsref = VSQueryref(vs);
    H4V_ASSERT(VSdetach(vs) == SUCCEED && Vend(f) == SUCCEED && Hclose(f) == SUCCEED, "C10.S1.close");
    f = Hopen("t.hdf", ROPEN, 0);
    H4V_ASSERT(f != FAIL && Vstart(f) == SUCCEED, "C10.S1.reopen");
    vs = VSattach(f, vsref, (ROPEN & DFACC_WRITE) ? "w" : "r");
    H4V_ASSERT(vs != FAIL, "C10.S1.reattach");
    check_vs(vs);
    H4V_ASSERT(VSdetach(vs) == SUCCEED && Vend(f) == SUCCEED && Hclose(f) == SUCCEED, "C10.S1.close2");
#elif MODE == 3 /* Vgroup attributes */
    vg = Vattach(f, -1, "w");
    H4V_ASSERT(vg != FAIL && Vsetname(vg, "g") == SUCCEED, "C10.S1.vg.create");
    for (i = 0; i < NGA; i++) {
        H4V_ASSERT(Vsetattr(vg, GA[i].name, GA[i].type, GA[i].count, &val[p]) == SUCCEED, "C10.S1.vg.setattr");
        for (k = 0; k < GA[i].size; k++) Gg[i][k] = val[p + k];
        p += 8;
    }
    H4V_ASSERT(Vsetattr(vg, GA[0].name, GA[0].type, GA[0].count, &val[p]) == SUCCEED, "C10.S1.vg.replace");
    for (k = 0; k < GA[0].size; k++) Gg[0][k] = val[p + k];
    p += 8;
    H4V_ASSERT(Vsetattr(vg, GA[1].name, DFNT_INT16, GA[1].count, &val[p]) == FAIL, "C10.S1.vg.retype: changing an attribute's type was accepted");
    check_vg(vg);
    vgref = VQueryref(vg);
    H4V_ASSERT(Vdetach(vg) == SUCCEED && Vend(f) == SUCCEED && Hclose(f) == SUCCEED, "C10.S1.vg.close");
    f = Hopen("t.hdf", ROPEN, 0);
    H4V_ASSERT(f != FAIL && Vstart(f) == SUCCEED, "C10.S1.vg.reopen");
    vg = Vattach(f, vgref, (ROPEN & DFACC_WRITE) ? "w" : "r");
    H4V_ASSERT(vg != FAIL, "C10.S1.vg.reattach");
    check_vg(vg);
    H4V_ASSERT(Vdetach(vg) == SUCCEED && Vend(f) == SUCCEED && Hclose(f) == SUCCEED, "C10.S1.vg.close2");
#else /* GR file attributes and image attributes */
    gr = GRstart(f);
    H4V_ASSERT(gr != FAIL, "C10.S1.gr.start");
    ri = GRcreate(gr, "img", 1, DFNT_UINT8, MFGR_INTERLACE_PIXEL, dims);
    H4V_ASSERT(ri != FAIL, "C10.S1.gr.create");
    { int32 st[2] = {0, 0}, ed[2] = {2, 2}; H4V_ASSERT(GRwriteimage(ri, st, NULL, ed, pix) == SUCCEED, "C10.S1.gr.write"); }
    for (i = 0; i < NGA; i++) {
        H4V_ASSERT(GRsetattr(MODE == 1 ? gr : ri, GA[i].name, GA[i].type, GA[i].count, &val[p]) == SUCCEED, "C10.S1.gr.setattr");
        for (k = 0; k < GA[i].size; k++) Gr[i][k] = val[p + k];
        p += 8;
    }
    check_gr(MODE == 1 ? gr : ri, 0);
    H4V_ASSERT(GRsetattr(MODE == 1 ? gr : ri, GA[1].name, GA[1].type, GA[1].count, &val[p]) == SUCCEED, "C10.S1.gr.replace");
    for (k = 0; k < GA[1].size; k++) Gr[1][k] = val[p + k];
    p += 8;
    check_gr(MODE == 1 ? gr : ri, 0);
    H4V_ASSERT(GRendaccess(ri) == SUCCEED && GRend(gr) == SUCCEED && Vend(f) == SUCCEED && Hclose(f) == SUCCEED, "C10.S1.gr.close");
    f = Hopen("t.hdf", ROPEN, 0);
    H4V_ASSERT(f != FAIL, "C10.S1.gr.reopen");
    gr = GRstart(f);
    ri = GRselect(gr, 0);
    H4V_ASSERT(gr != FAIL && ri != FAIL, "C10.S1.gr.select");
    { int32 nd, na; H4V_ASSERT(GRfileinfo(gr, &nd, &na) == SUCCEED && nd == 1 && na == (MODE == 1 ? NGA : 0), "C10.S1.gr.fileinfo: number of file attributes differs"); }
    check_gr(MODE == 1 ? gr : ri, 0);
    H4V_ASSERT(GRendaccess(ri) == SUCCEED && GRend(gr) == SUCCEED && Hclose(f) == SUCCEED, "C10.S1.gr.close2");
#endif
    (void)vs; (void)vg; (void)gr; (void)ri; (void)vsref; (void)vgref; (void)dims; (void)pix; (void)k; (void)i; (void)p;
    H4V_WITNESS();
}
