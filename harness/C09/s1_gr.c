/* C09.S1 — general raster image scenario, whole real libhdf on memio.
 * Geometry (image WxH, NCOMP, element size ES/number type NT, write region,
 * read region and strides, write-side interlace WIL, read-side interlace RIL, fill
 * value on/off, reopen yes/no, palette yes/no) is concrete; every pixel component,
 * fill value byte and palette entry is symbolic.  Reference: H x W x NCOMP array. */
#include "hdf.h"
#include "h4v.h"
#include "memio.h"
#ifndef NT
#define NT DFNT_UINT8
#define ES 1
#endif
#define MAXPIX (3 * 3 * 3 * 2)
H4V_IN_ARR(uint8_t, pay, 2 * MAXPIX);
H4V_IN_ARR(uint8_t, fillv, 3 * 2);
H4V_IN_ARR(uint8_t, lut, 3 * 256);

static uint8 G[H][W][NCOMP][ES]; /* ghost image */
static uint8 Gdef[H][W];         /* pixel defined (written or filled) */

static int bidx(int il, int x, int y, int c, int w, int h)
{
    if (il == MFGR_INTERLACE_PIXEL) return ((y * w + x) * NCOMP + c) * ES;
    if (il == MFGR_INTERLACE_LINE) return ((y * NCOMP + c) * w + x) * ES;
    return ((c * h + y) * w + x) * ES;
}

static void do_write(int32 ri, int sx, int sy, int tx, int ty, int cx, int cy, const uint8 *src)
{
    int32 start[2], stride[2], count[2];
    uint8 buf[MAXPIX];
    int   x, y, c, b;
    start[0] = sx; start[1] = sy; stride[0] = tx; stride[1] = ty; count[0] = cx; count[1] = cy;
    for (y = 0; y < cy; y++) for (x = 0; x < cx; x++) for (c = 0; c < NCOMP; c++) for (b = 0; b < ES; b++) {
        uint8 v = src[((y * cx + x) * NCOMP + c) * ES + b];
        buf[bidx(WIL, x, y, c, cx, cy) + b] = v;
        G[sy + y * ty][sx + x * tx][c][b] = v;
    }
    for (y = 0; y < cy; y++) for (x = 0; x < cx; x++) Gdef[sy + y * ty][sx + x * tx] = 1;
    H4V_ASSERT(GRwriteimage(ri, start, stride, count, buf) == SUCCEED, "C09.S1.write");
}

static void do_read(int32 ri, int sx, int sy, int tx, int ty, int cx, int cy)
{
    int32 start[2], stride[2], count[2];
    uint8 buf[MAXPIX + 8];
    int   x, y, c, b, i;
    start[0] = sx; start[1] = sy; stride[0] = tx; stride[1] = ty; count[0] = cx; count[1] = cy;
    for (i = 0; i < MAXPIX + 8; i++) buf[i] = 0x6B;
    H4V_ASSERT(GRreqimageil(ri, RIL) == SUCCEED, "C09.S1.reqil");
    H4V_ASSERT(GRreadimage(ri, start, stride, count, buf) == SUCCEED, "C09.S1.read");
    for (y = 0; y < cy; y++) for (x = 0; x < cx; x++) for (c = 0; c < NCOMP; c++) for (b = 0; b < ES; b++)
        if (Gdef[sy + y * ty][sx + x * tx])
            H4V_ASSERT(buf[bidx(RIL, x, y, c, cx, cy) + b] == G[sy + y * ty][sx + x * tx][c][b],
                       "C09.S1.pixel: pixel component read differs from the last one written (or the fill value)");
    for (i = cx * cy * NCOMP * ES; i < MAXPIX + 8; i++) H4V_ASSERT(buf[i] == 0x6B, "C09.S1.overrun: GRreadimage wrote beyond the requested region");
}

void harness(void)
{
    int32 f, gr, ri, dims[2], ref, idx;
    int   x, y, c, b;
    H4V_GET_ARR(pay, 2 * MAXPIX); H4V_GET_ARR(fillv, 6); H4V_GET_ARR(lut, 768);
    f = Hopen("t.hdf", DFACC_CREATE, 16);
    H4V_ASSERT(f != FAIL, "C09.S1.open");
    gr = GRstart(f);
    H4V_ASSERT(gr != FAIL, "C09.S1.grstart");
    dims[0] = W; dims[1] = H;
    ri = GRcreate(gr, "img", NCOMP, NT, WIL, dims);
    H4V_ASSERT(ri != FAIL, "C09.S1.create");
#if FILL
    H4V_ASSERT(GRsetattr(ri, FILL_ATTR, NT, NCOMP, fillv) == SUCCEED, "C09.S1.setfill");
    for (y = 0; y < H; y++) for (x = 0; x < W; x++) { for (c = 0; c < NCOMP; c++) for (b = 0; b < ES; b++) G[y][x][c][b] = fillv[c * ES + b]; Gdef[y][x] = 1; }
#endif
    do_write(ri, W1SX, W1SY, W1TX, W1TY, W1CX, W1CY, pay);
#if LUT
    {
        int32 lid = GRgetlutid(ri, 0);
        H4V_ASSERT(lid != FAIL, "C09.S1.lutid");
        H4V_ASSERT(GRwritelut(lid, 3, DFNT_UINT8, MFGR_INTERLACE_PIXEL, 256, lut) == SUCCEED, "C09.S1.writelut");
    }
#endif
#if SECOND
    do_write(ri, W2SX, W2SY, 1, 1, W2CX, W2CY, pay + MAXPIX);
#endif
    ref = GRidtoref(ri);
#if REOPEN
    H4V_ASSERT(GRendaccess(ri) == SUCCEED, "C09.S1.endaccess");
    H4V_ASSERT(GRend(gr) == SUCCEED, "C09.S1.grend");
    H4V_ASSERT(Hclose(f) == SUCCEED, "C09.S1.close");
    f = Hopen("t.hdf", DFACC_READ, 0);
    H4V_ASSERT(f != FAIL, "C09.S1.reopen");
    gr = GRstart(f);
    H4V_ASSERT(gr != FAIL, "C09.S1.grstart2");
    idx = GRreftoindex(gr, (uint16)ref);
    H4V_ASSERT(idx == 0, "C09.S1.reftoindex");
    H4V_ASSERT(GRnametoindex(gr, "img") == 0, "C09.S1.nametoindex");
    ri = GRselect(gr, idx);
    H4V_ASSERT(ri != FAIL, "C09.S1.select");
#endif
    {
        char  nm[64];
        int32 nc, nt, il, d2[2], na;
        H4V_ASSERT(GRgetiminfo(ri, nm, &nc, &nt, &il, d2, &na) == SUCCEED, "C09.S1.iminfo");
        H4V_ASSERT(nc == NCOMP && nt == NT && d2[0] == W && d2[1] == H, "C09.S1.iminfo.values: image description differs from the one created");
        H4V_ASSERT(strcmp(nm, "img") == 0, "C09.S1.iminfo.name");
    }
    do_read(ri, R1SX, R1SY, R1TX, R1TY, R1CX, R1CY);
#if LUT
    {
        int32 lid = GRgetlutid(ri, 0), nc, nt, il, ne;
        static uint8 lo[772];
        int   i;
        H4V_ASSERT(lid != FAIL && GRgetlutinfo(lid, &nc, &nt, &il, &ne) == SUCCEED, "C09.S1.lutinfo");
        H4V_ASSERT(nc == 3 && (nt == DFNT_UINT8 || nt == DFNT_UCHAR8) && ne == 256, "C09.S1.lutinfo.values");
        for (i = 0; i < 772; i++) lo[i] = 0x6B;
        H4V_ASSERT(GRreadlut(lid, lo) == SUCCEED, "C09.S1.readlut");
        for (i = 0; i < 768; i++) H4V_ASSERT(lo[i] == lut[i], "C09.S1.lut: palette entry read differs from the entry written");
        for (i = 768; i < 772; i++) H4V_ASSERT(lo[i] == 0x6B, "C09.S1.lut.overrun");
    }
#endif
    H4V_ASSERT(GRendaccess(ri) == SUCCEED, "C09.S1.endaccess2");
    H4V_ASSERT(GRend(gr) == SUCCEED, "C09.S1.grend2");
    H4V_ASSERT(Hclose(f) == SUCCEED, "C09.S1.close2");
    (void)idx; (void)x; (void)y; (void)c; (void)b;
    H4V_WITNESS();
}
