/* C13.S1 — handle safety scenarios, whole real libhdf on memio; payload symbolic.
 * MODE 0: H-level ids (close with attached aid, double release, use after release, wrong kind)
 * MODE 1: two opens of one path, different access modes, any release order
 * MODE 2: Vgroup/Vdata ids (wrong interface, stale, double detach)
 * MODE 3: library re-initialisation (HPend) after everything is closed
 * MODE 4: a file id passed where an access id is expected (known finding F11) */
#include "hdf.h"
#include "hfile_priv.h"
#include "h4v.h"
#include "memio.h"
#include "atom_priv.h"
H4V_IN_ARR(uint8_t, pay, 8);
H4V_IN(int32_t, junk);

void harness(void)
{
    uint8 out[8];
    int32 f, f2, aid, aid2, vg, vs;
    int   i;
    H4V_GET_ARR(pay, 8); H4V_GET(junk);
    f = Hopen("t.hdf", DFACC_CREATE, 4);
    H4V_ASSERT(f != FAIL, "C13.S1.open");
    H4V_ASSERT(Hputelement(f, 1000, 1, pay, 8) == 8, "C13.S1.put");
#if MODE == 0
    aid = Hstartread(f, 1000, 1);
    H4V_ASSERT(aid != FAIL, "C13.S1.startread");
    H4V_ASSERT(Hclose(f) == FAIL, "C13.S1.close.attached: file closed out from under an attached access id");
    H4V_ASSERT(Hread(aid, 8, out) == 8 && out[2] == pay[2], "C13.S1.usable: file unusable after a refused close");
    /* (H-level wrong-kind ids: see MODE 4 and known finding F11) */
    aid2 = Hstartread(f, 1000, 1);
    H4V_ASSERT(aid2 != FAIL && aid2 != aid, "C13.S1.alias: two live access ids are equal");
    H4V_ASSERT(Hendaccess(aid) == SUCCEED, "C13.S1.endaccess");
    H4V_ASSERT(Hendaccess(aid) == FAIL, "C13.S1.double: double release of an access id succeeded");
    H4V_ASSERT(Hread(aid, 4, out) == FAIL, "C13.S1.stale.read: released access id still usable");
    H4V_ASSERT(Hseek(aid, 0, DF_START) == FAIL, "C13.S1.stale.seek");
    H4V_ASSERT(Htell(aid) == FAIL, "C13.S1.stale.tell");
    H4V_ASSERT(Hinquire(aid, NULL, NULL, NULL, NULL, NULL, NULL, NULL, NULL) == FAIL, "C13.S1.stale.inquire");
    H4V_ASSERT(Hseek(aid2, 3, DF_START) == SUCCEED && Hread(aid2, 2, out) == 2 && out[0] == pay[3], "C13.S1.other: releasing one id disturbed another");
    H4V_ASSERT(Hendaccess(aid2) == SUCCEED, "C13.S1.endaccess2");
    { /* ids that were never issued (arbitrary ids are decided at atom level in K1) */
        static const int32 J[] = {0, -1, 0x7fffffff, (int32)0x80000000, 12345, (FIDGROUP << 28) | 0x0ffffff, (AIDGROUP << 28) | 77};
        for (i = 0; i < 7; i++) {
            H4V_ASSERT(Hexist(J[i], 1000, 1) == FAIL, "C13.S1.junk.fid: never-issued id accepted as file id");
            H4V_ASSERT(Hread(J[i], 1, out) == FAIL, "C13.S1.junk.aid: never-issued id accepted as access id");
        }
    }
    H4V_ASSERT(Hclose(f) == SUCCEED, "C13.S1.close");
    H4V_ASSERT(Hclose(f) == FAIL, "C13.S1.close.double: double close succeeded");
    H4V_ASSERT(Hexist(f, 1000, 1) == FAIL, "C13.S1.stale.fid: closed file id still usable");
    H4V_ASSERT(Hstartread(f, 1000, 1) == FAIL, "C13.S1.stale.fid2");
    H4V_ASSERT(Hputelement(f, 1000, 2, pay, 2) == FAIL, "C13.S1.stale.fid3");
    f = Hopen("t.hdf", DFACC_READ, 0);
    H4V_ASSERT(f != FAIL && Hgetelement(f, 1000, 1, out) == 8 && out[7] == pay[7], "C13.S1.fresh: fresh open after teardown");
    H4V_ASSERT(Hclose(f) == SUCCEED, "C13.S1.close3");
#elif MODE == 1
    f2 = Hopen("t.hdf", DFACC_READ, 0);
    H4V_ASSERT(f2 != FAIL && f2 != f, "C13.S1.two.open");
    H4V_ASSERT(Hputelement(f, 1000, 2, pay, 4) == 4, "C13.S1.two.put");
    H4V_ASSERT(Hexist(f2, 1000, 2) == SUCCEED && Hlength(f2, 1000, 2) == 4, "C13.S1.two.view: second open does not see the shared directory");
    H4V_ASSERT(Hgetelement(f2, 1000, 2, out) == 4 && out[1] == pay[1], "C13.S1.two.data");
    aid = Hstartread(f2, 1000, 1);
    H4V_ASSERT(aid != FAIL, "C13.S1.two.aid");
#if ORDER == 0
    H4V_ASSERT(Hclose(f) == SUCCEED || Hclose(f) == FAIL, "C13.S1.two.close1");
#endif
    H4V_ASSERT(Hread(aid, 8, out) == 8 && out[5] == pay[5], "C13.S1.two.read");
    H4V_ASSERT(Hendaccess(aid) == SUCCEED, "C13.S1.two.end");
    H4V_ASSERT(Hclose(f2) == SUCCEED, "C13.S1.two.close2");
#if ORDER == 1
    H4V_ASSERT(Hexist(f, 1000, 2) == SUCCEED, "C13.S1.two.still: first open unusable after the second was closed");
    H4V_ASSERT(Hclose(f) == SUCCEED, "C13.S1.two.close1b");
#endif
    H4V_ASSERT(Hexist(f, 1000, 1) == FAIL && Hexist(f2, 1000, 1) == FAIL, "C13.S1.two.stale");
    f = Hopen("t.hdf", DFACC_READ, 0);
    H4V_ASSERT(f != FAIL && Hlength(f, 1000, 2) == 4, "C13.S1.two.fresh");
    H4V_ASSERT(Hclose(f) == SUCCEED, "C13.S1.two.close3");
#elif MODE == 2
    H4V_ASSERT(Vstart(f) == SUCCEED, "C13.S1.v.start");
    vg = Vattach(f, -1, "w");
    vs = VSattach(f, -1, "w");
    H4V_ASSERT(vg != FAIL && vs != FAIL && vg != vs, "C13.S1.v.attach");
    H4V_ASSERT(Vsetname(vs, "x") == FAIL, "C13.S1.v.kind.vs-as-vg: vdata id accepted by the vgroup interface");
    H4V_ASSERT(VSsetname(vg, "x") == FAIL, "C13.S1.v.kind.vg-as-vs: vgroup id accepted by the vdata interface");
    H4V_ASSERT(Vntagrefs(vs) == FAIL, "C13.S1.v.kind2");
    H4V_ASSERT(VSelts(vg) == FAIL, "C13.S1.v.kind3");
    H4V_ASSERT(Vsetname(f, "x") == FAIL && VSsetname(f, "x") == FAIL, "C13.S1.v.kind.fid");
    H4V_ASSERT(Vsetname(vg, "grp") == SUCCEED, "C13.S1.v.setname");
    H4V_ASSERT(VSfdefine(vs, "A", DFNT_UINT8, 2) == SUCCEED && VSsetfields(vs, "A") == SUCCEED, "C13.S1.v.define");
    H4V_ASSERT(VSwrite(vs, pay, 2, FULL_INTERLACE) == 2, "C13.S1.v.write");
    H4V_ASSERT(Vdetach(vg) == SUCCEED, "C13.S1.v.detach");
    H4V_ASSERT(Vdetach(vg) == FAIL, "C13.S1.v.double: double detach succeeded");
    H4V_ASSERT(Vsetname(vg, "y") == FAIL, "C13.S1.v.stale.setname: released vgroup id still usable");
    H4V_ASSERT(Vaddtagref(vg, 1000, 1) == FAIL, "C13.S1.v.stale.add");
    H4V_ASSERT(Vntagrefs(vg) == FAIL, "C13.S1.v.stale.n");
    H4V_ASSERT(VSelts(vs) == 2, "C13.S1.v.other: releasing the vgroup disturbed the vdata id");
    H4V_ASSERT(VSdetach(vs) == SUCCEED, "C13.S1.v.vsdetach");
    H4V_ASSERT(VSdetach(vs) == FAIL, "C13.S1.v.vsdouble: double VSdetach succeeded");
    H4V_ASSERT(VSwrite(vs, pay, 1, FULL_INTERLACE) == FAIL, "C13.S1.v.stale.write: released vdata id still usable");
    H4V_ASSERT(VSelts(vs) == FAIL, "C13.S1.v.stale.elts");
    H4V_ASSERT(Vend(f) == SUCCEED, "C13.S1.v.end");
    H4V_ASSERT(Hclose(f) == SUCCEED, "C13.S1.v.close");
    H4V_ASSERT(Vattach(f, -1, "w") == FAIL && VSattach(f, -1, "w") == FAIL, "C13.S1.v.stale.fid");
    f = Hopen("t.hdf", DFACC_READ, 0);
    H4V_ASSERT(f != FAIL && Vstart(f) == SUCCEED, "C13.S1.v.fresh");
    H4V_ASSERT(Vfind(f, "grp") > 0, "C13.S1.v.fresh.find");
    H4V_ASSERT(Vend(f) == SUCCEED && Hclose(f) == SUCCEED, "C13.S1.v.fresh.close");
#elif MODE == 4 /* H-level entry points given a live id of another kind (known finding F11) */
    H4V_ASSERT(Htell(f) == FAIL, "C13.S1.kind.fid-as-aid: file id accepted as access id");
    H4V_ASSERT(Hclose(f) == SUCCEED, "C13.S1.k.close");
#elif MODE == 3
    aid = Hstartread(f, 1000, 1);
    H4V_ASSERT(aid != FAIL && Hendaccess(aid) == SUCCEED, "C13.S1.r.aid");
    H4V_ASSERT(Hclose(f) == SUCCEED, "C13.S1.r.close");
    HPend();
    H4V_ASSERT(Hexist(f, 1000, 1) == FAIL, "C13.S1.r.stale.fid: id from before re-initialisation accepted");
    H4V_ASSERT(Hread(aid, 1, out) == FAIL, "C13.S1.r.stale.aid");
    f = Hopen("t.hdf", DFACC_RDWR, 0);
    H4V_ASSERT(f != FAIL, "C13.S1.r.reopen: library unusable after re-initialisation");
    H4V_ASSERT(Hgetelement(f, 1000, 1, out) == 8, "C13.S1.r.get");
    for (i = 0; i < 8; i++) H4V_ASSERT(out[i] == pay[i], "C13.S1.r.data");
    H4V_ASSERT(Hputelement(f, 1000, 2, pay, 3) == 3, "C13.S1.r.put");
    H4V_ASSERT(Hclose(f) == SUCCEED, "C13.S1.r.close2");
#endif
    (void)i; (void)f2; (void)aid2; (void)vg; (void)vs; (void)aid;
    H4V_WITNESS();
}
