/* C13.K1 — atom (handle) table, UNMODIFIED atom.c (real XOR cache swap: the
 * H4_VERIF hook is switched off for this translation unit).  Objects are opaque
 * pointer values that are compared and never dereferenced.  Two groups with hash
 * size HS (power of two; 1 or 2 force bucket collisions).  Symbolic: which ids are
 * looked up (valid, removed, never issued, other group, arbitrary bit patterns),
 * which id is removed, in which order lookups happen (drives the 4-entry cache). */
#undef H4_VERIF
#include "hdf.h"
#include "h4v.h"
#include "atom.c"
#ifndef HS
#define HS 2
#endif
#define NOBJ 5
H4V_IN(uint8_t, rm1);
H4V_IN(uint8_t, rm2);
H4V_IN_ARR(uint8_t, look, 7);
H4V_IN(int32_t, garbage);
static char  OBJ[NOBJ + 2]; /* distinct addresses used as opaque object pointers */
static atom_t id[NOBJ + 2];
static int    live[NOBJ + 2];

static void check_lookup(int k)
{
    void *o = HAatom_object(id[k]);
    if (live[k]) {
        H4V_ASSERT(o == (void *)&OBJ[k], "C13.K1.valid: a valid id returned another object (or none)");
        H4V_ASSERT(HAatom_group(id[k]) == (k < NOBJ ? AIDGROUP : FIDGROUP), "C13.K1.group: id reports the wrong group");
    }
    else
        H4V_ASSERT(o == NULL, "C13.K1.stale: a released id still returns an object");
}

void harness(void)
{
    int i;
    H4V_GET(rm1); H4V_GET(rm2); H4V_GET_ARR(look, 7); H4V_GET(garbage);
    H4V_ASSERT(HAinit_group(AIDGROUP, HS) == SUCCEED, "C13.K1.init");
    H4V_ASSERT(HAinit_group(FIDGROUP, HS) == SUCCEED, "C13.K1.init2");
    for (i = 0; i < NOBJ; i++) {
        id[i] = HAregister_atom(AIDGROUP, &OBJ[i]);
        H4V_ASSERT(id[i] != FAIL, "C13.K1.register");
        live[i] = 1;
    }
    for (i = NOBJ; i < NOBJ + 2; i++) {
        id[i] = HAregister_atom(FIDGROUP, &OBJ[i]);
        H4V_ASSERT(id[i] != FAIL, "C13.K1.register2");
        live[i] = 1;
    }
    for (i = 0; i < NOBJ + 2; i++) { int j; for (j = 0; j < i; j++) H4V_ASSERT(id[i] != id[j], "C13.K1.distinct: two live ids are equal"); }
    /* lookups in a symbolic order warm the cache */
    /* (an id reaches the front cache slot only after one miss and three hits) */
    for (i = 0; i < 4; i++) { H4V_ASSUME(look[i] < NOBJ + 2); check_lookup(look[i]); }
    /* remove one (symbolic) id while it may sit in the cache */
#if VAR == 1
    rm1 = RM1; /* first removal enumerated in this variant */
#endif
    H4V_ASSUME(rm1 < NOBJ + 2);
    H4V_ASSERT(HAremove_atom(id[rm1]) == (void *)&OBJ[rm1], "C13.K1.remove: release returned another object");
    live[rm1] = 0;
    for (i = 0; i < NOBJ + 2; i++) check_lookup(i);
    H4V_ASSERT(HAremove_atom(id[rm1]) == NULL, "C13.K1.double: double release succeeded");
#if VAR == 1
    /* a new registration must not resurrect the stale id for a different object */
    {
        atom_t n = HAregister_atom(AIDGROUP, &OBJ[0]);
        H4V_ASSERT(n != FAIL, "C13.K1.register3");
        for (i = 0; i < NOBJ + 2; i++) if (live[i]) H4V_ASSERT(n != id[i], "C13.K1.fresh: new id equals a live id");
        H4V_ASSERT(HAatom_object(n) == (void *)&OBJ[0], "C13.K1.fresh.obj");
        H4V_ASSERT(HAremove_atom(n) == (void *)&OBJ[0], "C13.K1.fresh.rm");
    }
    for (i = 4; i < 7; i++) { H4V_ASSUME(look[i] < NOBJ + 2); check_lookup(look[i]); }
    /* second removal, then everything again */
    H4V_ASSUME(rm2 < NOBJ + 2 && rm2 != rm1);
    H4V_ASSERT(HAremove_atom(id[rm2]) == (void *)&OBJ[rm2], "C13.K1.remove2");
    live[rm2] = 0;
    for (i = 0; i < NOBJ + 2; i++) check_lookup(i);
#endif
#if VAR == 0
    /* arbitrary bit pattern: either a live id (own object) or rejected */
    {
        void *o = HAatom_object(garbage);
        int   hit = 0;
        for (i = 0; i < NOBJ + 2; i++) if (live[i] && garbage == id[i]) { hit = 1; H4V_ASSERT(o == (void *)&OBJ[i], "C13.K1.garbage.valid"); }
        if (!hit) H4V_ASSERT(o == NULL, "C13.K1.garbage: an id that was never issued (or was released) returned an object");
        if (!hit) H4V_ASSERT(HAremove_atom(garbage) == NULL, "C13.K1.garbage.rm: release of an id that was never issued succeeded");
    }
#endif
    /* destroy one group: its ids die, the other group's ids survive */
    H4V_ASSERT(HAdestroy_group(FIDGROUP) == SUCCEED, "C13.K1.destroy");
    for (i = 0; i < NOBJ; i++) check_lookup(i);
    H4V_WITNESS();
}
