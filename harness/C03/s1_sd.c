/* C03.S1 — SDS hyperslab I/O as an n-dimensional array; real mfhdf (mfsd.c,
 * putget.c, putgetg.c, var.c, array.c, dim.c, attr.c, cdf.c, file.c, ...) over the
 * real libhdf on memio, one session (SDstart(create) .. reads; see DESIGN.md for
 * why the reopen path is not part of this harness).
 * Geometry (RANK, D0..D2, number type, the two write slabs, the read slab, strides,
 * fill mode, user fill value or not, unlimited first dimension or not, an
 * out-of-range request) is concrete and enumerated by the generator; every data
 * value and the fill value are symbolic.  Reference: row-major array of cells. */
#include "mfhdf.h"
#include "h4v.h"
#include "memio.h"
#ifndef NT
#define NT DFNT_INT32
#define ES 4
#endif
#define MAXC 27
H4V_IN_ARR(uint8_t, pay, 2 * MAXC * 8);
H4V_IN_ARR(uint8_t, fillv, 8);
static const int32 DIMS[3] = {D0, D1, D2};
static uint8 G[MAXC][ES];
static uint8 Gdef[MAXC]; /* 0 = never written (fill or undefined), 1 = written */
static int   grow0 = D0; /* current extent of the first dimension (unlimited case) */

static int cell(const int *c) { int i, k = 0; for (i = 0; i < RANK; i++) k = k * (i == 0 ? (UNLIM ? 3 : D0) : DIMS[i]) + c[i]; return k; }

static void slab(int32 sds, int wr, const int32 *st, const int32 *sd, const int32 *ct, const uint8 *src, int expect_ok)
{
    int32 start[3], stride[3], count[3];
    uint8 buf[MAXC * ES + 8];
    int   i, n = 1, idx[3], k, b, r;
    for (i = 0; i < RANK; i++) { start[i] = st[i]; stride[i] = sd[i]; count[i] = ct[i]; n *= ct[i]; }
    for (i = 0; i < MAXC * ES + 8; i++) buf[i] = 0x77;
    if (wr) for (i = 0; i < n * ES; i++) buf[i] = src[i];
    r = wr ? SDwritedata(sds, start, USESTRIDE ? stride : NULL, count, buf) : SDreaddata(sds, start, USESTRIDE ? stride : NULL, count, buf);
    if (!expect_ok) {
        H4V_ASSERT(r == FAIL, "C03.S1.range: a request reaching outside the extent was accepted");
        if (wr) /* a refused write may have touched cells INSIDE the requested region (the property allows that): forget them */
            for (k = 0; k < n; k++) {
                int t = k, c[3], inb = 1;
                for (i = RANK - 1; i >= 0; i--) { idx[i] = t % ct[i]; t /= ct[i]; }
                for (i = 0; i < RANK; i++) { c[i] = st[i] + idx[i] * (USESTRIDE ? sd[i] : 1); if (c[i] >= (i == 0 ? (UNLIM ? grow0 : D0) : DIMS[i])) inb = 0; }
                if (inb) Gdef[cell(c)] = 2;
            }
        return;
    }
    if (wr) H4V_ASSERT(r == SUCCEED, "C03.S1.write: an in-range SDwritedata failed");
    else H4V_ASSERT(r == SUCCEED, "C03.S1.read: an in-range SDreaddata failed");
    for (k = 0; k < n; k++) {
        int t = k, c[3];
        for (i = RANK - 1; i >= 0; i--) { idx[i] = t % ct[i]; t /= ct[i]; }
        for (i = 0; i < RANK; i++) c[i] = st[i] + idx[i] * (USESTRIDE ? sd[i] : 1);
        if (wr) {
            for (b = 0; b < ES; b++) G[cell(c)][b] = src[k * ES + b];
            Gdef[cell(c)] = 1;
            if (UNLIM && c[0] + 1 > grow0) grow0 = c[0] + 1;
        }
        else {
            if (Gdef[cell(c)] == 1)
                for (b = 0; b < ES; b++) H4V_ASSERT(buf[k * ES + b] == G[cell(c)][b], "C03.S1.value: cell read differs from the value last written");
#if FILLMODE && USERFILL
            else if (Gdef[cell(c)] == 0)
                for (b = 0; b < ES; b++) H4V_ASSERT(buf[k * ES + b] == fillv[b], "C03.S1.fill: never-written cell does not hold the fill value");
#endif
        }
    }
    if (!wr)
        for (i = n * ES; i < MAXC * ES + 8; i++) H4V_ASSERT(buf[i] == 0x77, "C03.S1.overrun: SDreaddata wrote beyond the selected cells");
}

void harness(void)
{
    int32 sd, sds, dims[3], rk, nt, na;
    static const int32 W1S[3] = {W1S0, W1S1, W1S2}, W1T[3] = {W1T0, W1T1, W1T2}, W1C[3] = {W1C0, W1C1, W1C2};
    static const int32 W2S[3] = {W2S0, W2S1, W2S2}, W2C[3] = {W2C0, W2C1, W2C2}, ONE[3] = {1, 1, 1};
    static const int32 R1S[3] = {R1S0, R1S1, R1S2}, R1T[3] = {R1T0, R1T1, R1T2}, R1C[3] = {R1C0, R1C1, R1C2};
    static const int32 BS[3] = {BADS0, BADS1, BADS2}, BC[3] = {BADC0, BADC1, BADC2};
    static const int32 Z[3] = {0, 0, 0};
    int32 full[3];
    char  nm[64];
    int   i;
    H4V_GET_ARR(pay, 2 * MAXC * 8); H4V_GET_ARR(fillv, 8);
    sd = SDstart("t.hdf", DFACC_CREATE);
    H4V_ASSERT(sd != FAIL, "C03.S1.start");
    for (i = 0; i < 3; i++) dims[i] = DIMS[i];
    if (UNLIM) { dims[0] = SD_UNLIMITED; grow0 = 0; }
    sds = SDcreate(sd, "v", NT, RANK, dims);
    H4V_ASSERT(sds != FAIL, "C03.S1.create");
#if USERFILL
    H4V_ASSERT(SDsetfillvalue(sds, fillv) == SUCCEED, "C03.S1.setfill");
#endif
#if !FILLMODE
    H4V_ASSERT(SDsetfillmode(sd, SD_NOFILL) != FAIL, "C03.S1.nofill");
#endif
    slab(sds, 1, W1S, W1T, W1C, pay, 1);
#if SECOND
    slab(sds, 1, W2S, ONE, W2C, pay + MAXC * 8, 1);
#endif
    H4V_ASSERT(SDgetinfo(sds, nm, &rk, dims, &nt, &na) == SUCCEED, "C03.S1.getinfo");
    H4V_ASSERT(rk == RANK && nt == NT, "C03.S1.getinfo.values");
    if (UNLIM) H4V_ASSERT(dims[0] == grow0, "C03.S1.numrecs: extent of the unlimited dimension differs from the records written");
#if REOPEN
    /* persistence: close the file and read the same selection in a new session */
    H4V_ASSERT(SDendaccess(sds) == SUCCEED && SDend(sd) == SUCCEED, "C03.S1.end");
    sd = SDstart("t.hdf", DFACC_READ);
    H4V_ASSERT(sd != FAIL, "C03.S1.restart");
    H4V_ASSERT(SDnametoindex(sd, "v") == 0, "C03.S1.nametoindex");
    sds = SDselect(sd, 0);
    H4V_ASSERT(sds != FAIL, "C03.S1.select");
    H4V_ASSERT(SDgetinfo(sds, nm, &rk, dims, &nt, &na) == SUCCEED && rk == RANK && nt == NT, "C03.S1.getinfo2: rank/type differ after reopen");
    for (i = 0; i < RANK; i++) H4V_ASSERT(dims[i] == (i == 0 && UNLIM ? grow0 : DIMS[i]), "C03.S1.shape2: shape differs after reopen");
#endif
    slab(sds, 0, R1S, R1T, R1C, NULL, 1);
#if BAD
    /* a request reaching outside the extent: refused, and nothing changes */
    slab(sds, BAD == 2, BS, ONE, BC, pay, 0);
    for (i = 0; i < 3; i++) full[i] = i == 0 ? (UNLIM ? grow0 : D0) : DIMS[i];
    if (!USESTRIDE || 1) { int32 save = 0; (void)save; }
    slab(sds, 0, Z, ONE, full, NULL, 1);
#endif
    H4V_ASSERT(SDendaccess(sds) == SUCCEED, "C03.S1.endaccess");
    (void)full; (void)BS; (void)BC; (void)W2S; (void)W2C; (void)Z;
    H4V_WITNESS();
}
