/* C19.K1 — hdiff's element comparison (real mfhdf/hdiff/hdiff_array.c): array_diff
 * with zero tolerances must return the number of positions whose values differ,
 * 0 iff the buffers are equal, symmetrically.  Symbolic: both buffers (N elements,
 * every bit pattern; NaN excluded for floating point as the property does). */
#include "hdf.h"
#include "h4v.h"
#include <math.h>
uint32 array_diff(void *buf1, void *buf2, uint32 tot_cnt, const char *name1, const char *name2, int rank, int32 *dims, int32 type,
                  float32 err_limit, float32 err_rel, uint32 max_err_cnt, int32 statistics, void *fill1, void *fill2);
#ifndef N
#define N 2
#endif
H4V_IN_ARR(uint8_t, a, N * 8);
H4V_IN_ARR(uint8_t, b, N * 8);

void harness(void)
{
    int32  dims[1] = {N};
    uint32 r1, r2, want = 0;
    int    i;
    H4V_GET_ARR(a, N * 8); H4V_GET_ARR(b, N * 8);
    for (i = 0; i < N; i++) {
#if TYPE == DFNT_FLOAT32
        float x, y; memcpy(&x, &a[i * 4], 4); memcpy(&y, &b[i * 4], 4);
        H4V_ASSUME(!isnan(x) && !isnan(y) && !isinf(x) && !isinf(y));
        if (x != y) want++;
#elif TYPE == DFNT_FLOAT64
        double x, y; memcpy(&x, &a[i * 8], 8); memcpy(&y, &b[i * 8], 8);
        H4V_ASSUME(!isnan(x) && !isnan(y) && !isinf(x) && !isinf(y));
        if (x != y) want++;
#else
        int k, d = 0;
        for (k = 0; k < SZ; k++) if (a[i * SZ + k] != b[i * SZ + k]) d = 1;
        want += d;
#endif
    }
    r1 = array_diff(a, b, N, "a", "b", 1, dims, TYPE, 0.0F, 0.0F, 100, 0, NULL, NULL);
    r2 = array_diff(b, a, N, "b", "a", 1, dims, TYPE, 0.0F, 0.0F, 100, 0, NULL, NULL);
    H4V_ASSERT((r1 == 0) == (want == 0), "C19.K1.detect: hdiff reports equal data as different or misses a changed value");
    H4V_ASSERT(r1 == want, "C19.K1.count: number of differences reported differs from the number of differing elements");
    H4V_ASSERT((r1 == 0) == (r2 == 0), "C19.K1.symmetric: hdiff(A,B) and hdiff(B,A) disagree on whether differences exist");
    H4V_WITNESS();
}
