/* C19.S2 — hdiff on Vdatas: object listing and record comparison, real hdiff sources
 * (hdiff_list.c, hdiff_vs.c, hdiff_table.c, ...) over the whole real libhdf on memio.
 * Two files with the same structure are built through the API: a top-level vgroup "grp"
 * holding NMEM Vdatas, plus one lone Vdata; the record bytes of both files are symbolic.
 *  (1) listing: every Vdata and the vgroup of file A appear in hdiff's object table
 *      exactly once (hdiff_list_vg + hdiff_list_vs, the two passes hdiff_list makes
 *      for the V interface);
 *  (2) comparison: diff_vs on the first Vdata of the group reports a difference
 *      exactly when some record byte differs between the two files.
 * SD/GR identifiers are not used by these passes for V-only files (-1 is passed).
 * Stub: Vlone / VSlone (vg.c; two passes over a 65536-entry table each, which symbolic
 * execution does not finish) are replaced FOR hdiff_list.c ONLY by a model that answers
 * from the known structure of the file: the lone vgroup is "grp", the lone Vdata is
 * "lone".  hdiff_list.c is compiled into this unit with the two names redirected. */
#include "hdf.h"
#include "mfhdf.h"
#include "hdiff.h"
#include "hdiff_list.h"
#include "hdiff_table.h"
#include "h4v.h"
#include "memio.h"
static int32 R_in[2], R_lone, R_grp;
static int32 h4v_Vlone(int32 f, int32 *ids, int32 n) { (void)f; if (n > 0 && ids) ids[0] = R_grp; return 1; }
static int32 h4v_VSlone(int32 f, int32 *ids, int32 n) { (void)f; if (n > 0 && ids) ids[0] = R_lone; return 1; }
#define Vlone  h4v_Vlone
#define VSlone h4v_VSlone
#include "hdiff_list.c"
#undef Vlone
#undef VSlone
#ifndef NMEM
#define NMEM 1
#endif
H4V_IN_ARR(uint8_t, da, 12);
H4V_IN_ARR(uint8_t, db, 12);

static void mk(const char *path, const uint8 *d, int remember)
{
    int32 f, vs, vg, k;
    f = Hopen(path, DFACC_CREATE, 16);
    H4V_ASSERT(f != FAIL && Vstart(f) == SUCCEED, "C19.S2.mk.open");
    vg = Vattach(f, -1, "w");
    H4V_ASSERT(vg != FAIL && Vsetname(vg, "grp") == SUCCEED, "C19.S2.mk.vg");
    for (k = 0; k < NMEM; k++) {
        vs = VSattach(f, -1, "w");
        H4V_ASSERT(vs != FAIL && VSfdefine(vs, "A", DFNT_INT16, 1) == SUCCEED && VSsetfields(vs, "A") == SUCCEED && VSsetname(vs, k ? "vd2" : "vd") == SUCCEED, "C19.S2.mk.vs");
        H4V_ASSERT(VSwrite(vs, d + 4 * k, 2, FULL_INTERLACE) == 2, "C19.S2.mk.write");
        H4V_ASSERT(Vinsert(vg, vs) != FAIL, "C19.S2.mk.insert");
        if (remember) R_in[k] = VSQueryref(vs);
        H4V_ASSERT(VSdetach(vs) == SUCCEED, "C19.S2.mk.detach");
    }
    if (remember) R_grp = VQueryref(vg);
    H4V_ASSERT(Vdetach(vg) == SUCCEED, "C19.S2.mk.vgdetach");
    vs = VSattach(f, -1, "w");
    H4V_ASSERT(vs != FAIL && VSfdefine(vs, "B", DFNT_UINT8, 2) == SUCCEED && VSsetfields(vs, "B") == SUCCEED && VSsetname(vs, "lone") == SUCCEED, "C19.S2.mk.lone");
    H4V_ASSERT(VSwrite(vs, d + 8, 2, FULL_INTERLACE) == 2, "C19.S2.mk.lonewrite");
    if (remember) R_lone = VSQueryref(vs);
    H4V_ASSERT(VSdetach(vs) == SUCCEED && Vend(f) == SUCCEED && Hclose(f) == SUCCEED, "C19.S2.mk.close");
}

void harness(void)
{
    int32      f1, f2;
    dtable_t  *t = NULL;
    diff_opt_t opt;
    uint32     nd;
    int        k, equal = 1, cnt;
    uint32     i;
    H4V_GET_ARR(da, 12); H4V_GET_ARR(db, 12);
    mk("a.hdf", da, 1);
    mk("b.hdf", db, 0);
    f1 = Hopen("a.hdf", DFACC_READ, 0);
    f2 = Hopen("b.hdf", DFACC_READ, 0);
    H4V_ASSERT(f1 != FAIL && f2 != FAIL && Vstart(f1) == SUCCEED && Vstart(f2) == SUCCEED, "C19.S2.open");
    /* (1) listing */
    dtable_init(&t);
    H4V_ASSERT(t != NULL, "C19.S2.table");
    H4V_ASSERT(hdiff_list_vg("a.hdf", f1, -1, -1, t, NULL, NULL) >= 0, "C19.S2.list.vg");
    H4V_ASSERT(hdiff_list_vs(f1, t) >= 0, "C19.S2.list.vs");
    for (k = 0; k < NMEM; k++) {
        cnt = 0;
        for (i = 0; i < t->nobjs; i++) if (t->objs[i].tag == DFTAG_VH && t->objs[i].ref == R_in[k]) cnt++;
        H4V_ASSERT(cnt == 1, "C19.S2.list.member: a Vdata inside a top-level vgroup is not in hdiff's object table exactly once (it would never be compared)");
    }
    cnt = 0;
    for (i = 0; i < t->nobjs; i++) if (t->objs[i].tag == DFTAG_VH && t->objs[i].ref == R_lone) cnt++;
    H4V_ASSERT(cnt == 1, "C19.S2.list.lone: a lone Vdata is not in hdiff's object table exactly once");
    cnt = 0;
    for (i = 0; i < t->nobjs; i++) if (t->objs[i].tag == DFTAG_VG && t->objs[i].ref == R_grp) cnt++;
    H4V_ASSERT(cnt == 1, "C19.S2.list.group: the vgroup is not in hdiff's object table exactly once");
    H4V_ASSERT(t->nobjs == (uint32)(NMEM + 2), "C19.S2.list.count: hdiff's object table has phantom or missing objects");
    /* (2) comparison of the first member (same ref in both files: same construction order) */
    memset(&opt, 0, sizeof opt);
    opt.vd = 1;
    nd = diff_vs(f1, f2, R_in[0], R_in[0], &opt);
    for (k = 0; k < 4; k++) if (da[k] != db[k]) equal = 0;
    if (equal)
        H4V_ASSERT(nd == 0, "C19.S2.diff.false: hdiff reports a difference between equal Vdatas");
    else
        H4V_ASSERT(nd > 0, "C19.S2.diff.missed: a changed Vdata value is not flagged by hdiff");
    /* reflexive */
    { /* the way hdiff itself compares a file with itself: a second open of the same path */
        int32 f1b = Hopen("a.hdf", DFACC_READ, 0);
        H4V_ASSERT(f1b != FAIL && Vstart(f1b) == SUCCEED, "C19.S2.open2");
        H4V_ASSERT(diff_vs(f1, f1b, R_lone, R_lone, &opt) == 0, "C19.S2.diff.reflexive: hdiff(F,F) reports a difference");
        H4V_ASSERT(Vend(f1b) == SUCCEED && Hclose(f1b) == SUCCEED, "C19.S2.close2");
    }
    dtable_free(t);
    H4V_ASSERT(Vend(f1) == SUCCEED && Vend(f2) == SUCCEED && Hclose(f1) == SUCCEED && Hclose(f2) == SUCCEED, "C19.S2.close");
    H4V_WITNESS();
}
