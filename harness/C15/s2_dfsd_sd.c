/* C15.S2 — a dataset written through the single-file DFSD interface is presented with
 * the same rank, dimensions, number type and values by the multi-file SD interface
 * (real mfhdf import path hdfsds.c + libhdf on memio).  Shape and type concrete (NT),
 * all element bytes symbolic. */
#include "mfhdf.h"
#include "h4v.h"
#include "memio.h"
#ifndef NT
#define NT DFNT_UINT16
#define ES 2
#endif
H4V_IN_ARR(uint8_t, pay, 2 * 3 * ES);

void harness(void)
{
    int32 dims[2] = {2, 3}, sd, sds, rk, dd[2], nt, na, st[2] = {0, 0}, ed[2] = {2, 3}, dnt = 0;
    char  nm[H4_MAX_NC_NAME + 1];
    uint8 out[2 * 3 * ES + 4];
    int   i;
    H4V_GET_ARR(pay, 2 * 3 * ES);
    H4V_ASSERT(DFSDsetdims(2, dims) == SUCCEED && DFSDsetNT(NT) == SUCCEED, "C15.S2.dfsd.set");
    H4V_ASSERT(DFSDputdata("t.hdf", 2, dims, pay) == SUCCEED, "C15.S2.dfsd.put");
    (void)dnt;
    sd = SDstart("t.hdf", DFACC_READ);
    H4V_ASSERT(sd != FAIL, "C15.S2.sd.start");
    { /* the import presents the two dimensions as coordinate variables first; the dataset is the variable that is not one */
        int32 nds = 0, nfa = 0, k, cand;
        H4V_ASSERT(SDfileinfo(sd, &nds, &nfa) == SUCCEED && nds >= 1 && nds <= 3, "C15.S2.sd.fileinfo");
        sds = FAIL;
        for (k = 0; k < nds; k++) {
            cand = SDselect(sd, k);
            H4V_ASSERT(cand != FAIL, "C15.S2.sd.select");
            if (!SDiscoordvar(cand)) { H4V_ASSERT(sds == FAIL, "C15.S2.sd.one: more than one data variable for one DFSD dataset"); sds = cand; }
        }
    }
    H4V_ASSERT(sds != FAIL, "C15.S2.sd.found: no data variable presented for the DFSD dataset");
    H4V_ASSERT(SDgetinfo(sds, nm, &rk, dd, &nt, &na) == SUCCEED, "C15.S2.sd.getinfo");
    H4V_ASSERT(rk == 2 && dd[0] == 2 && dd[1] == 3, "C15.S2.shape: rank/dimensions seen through SD differ from what DFSD wrote");
    H4V_ASSERT(nt == NT, "C15.S2.type: number type seen through SD differs from the one DFSD wrote");
    for (i = 0; i < 2 * 3 * ES + 4; i++) out[i] = 0x5A;
    H4V_ASSERT(SDreaddata(sds, st, NULL, ed, out) == SUCCEED, "C15.S2.sd.read");
    for (i = 0; i < 2 * 3 * ES; i++) H4V_ASSERT(out[i] == pay[i], "C15.S2.values: values read through SD differ from the ones written through DFSD");
    for (i = 2 * 3 * ES; i < 2 * 3 * ES + 4; i++) H4V_ASSERT(out[i] == 0x5A, "C15.S2.overrun");
    H4V_ASSERT(SDendaccess(sds) == SUCCEED && SDend(sd) == SUCCEED, "C15.S2.sd.end");
    H4V_WITNESS();
}
