/* C15.S1 — data written through one interface is seen identically through the
 * others (interfaces living in hdf/src); whole real libhdf on memio; all pixel,
 * palette and description bytes symbolic, geometry concrete.
 * MODE 0: DFR8putimage (+palette)      -> GR (GRgetiminfo/GRreadimage/GRreadlut)
 * MODE 1: GRwriteimage 1 comp uint8    -> DFR8getdims/DFR8getimage
 * MODE 2: DF24putimage (interlace IL)  -> GRreadimage in interlace RIL
 * MODE 3: GRwriteimage 3 comp (IL)     -> DF24getdims/DF24getimage (DF24reqil RIL)
 * MODE 4: DFANputdesc/DFANputlabel     -> ANnumann/ANannlist/ANreadann, and
 *         ANcreate/ANwriteann          -> DFANgetdesclen/DFANgetdesc/DFANgetlabel */
#include "hdf.h"
#include "h4v.h"
#include "memio.h"
#define XD 3
#define YD 2
H4V_IN_ARR(uint8_t, pix, XD * YD * 3);
H4V_IN_ARR(uint8_t, pal, 768);
H4V_IN_ARR(uint8_t, txt, 16);

static int bidx(int il, int x, int y, int c)
{
    if (il == 0) return (y * XD + x) * 3 + c;
    if (il == 1) return (y * 3 + c) * XD + x;
    return (c * YD + y) * XD + x;
}

void harness(void)
{
    int32 f, gr, ri, dims[2], nc, nt, il, na, st[2] = {0, 0}, ed[2] = {XD, YD};
    uint8 out[XD * YD * 3 + 4];
    static uint8 pout[772];
    char  nm[64];
    int   i, x, y, c;
    H4V_GET_ARR(pix, XD * YD * 3); H4V_GET_ARR(pal, 768); H4V_GET_ARR(txt, 16);
    for (i = 0; i < XD * YD * 3 + 4; i++) out[i] = 0x4D;
#if MODE == 0
    H4V_ASSERT(DFR8setpalette(pal) == SUCCEED, "C15.S1.r8.setpal");
    H4V_ASSERT(DFR8putimage("t.hdf", pix, XD, YD, 0) == SUCCEED, "C15.S1.r8.put");
    f = Hopen("t.hdf", DFACC_READ, 0);
    gr = GRstart(f);
    H4V_ASSERT(f != FAIL && gr != FAIL, "C15.S1.r8.grstart");
    { int32 nd, nat; H4V_ASSERT(GRfileinfo(gr, &nd, &nat) == SUCCEED && nd == 1, "C15.S1.r8.count: GR does not present exactly the one 8-bit raster"); }
    ri = GRselect(gr, 0);
    H4V_ASSERT(ri != FAIL && GRgetiminfo(ri, nm, &nc, &nt, &il, dims, &na) == SUCCEED, "C15.S1.r8.info");
    H4V_ASSERT(nc == 1 && (nt == DFNT_UINT8 || nt == DFNT_UCHAR8) && dims[0] == XD && dims[1] == YD, "C15.S1.r8.shape: dimensions/type seen through GR differ");
    H4V_ASSERT(GRreadimage(ri, st, NULL, ed, out) == SUCCEED, "C15.S1.r8.read");
    for (i = 0; i < XD * YD; i++) H4V_ASSERT(out[i] == pix[i], "C15.S1.r8.pixels: 8-bit raster read through GR differs");
    for (i = XD * YD; i < XD * YD + 4; i++) H4V_ASSERT(out[i] == 0x4D, "C15.S1.r8.overrun");
    { int32 lid = GRgetlutid(ri, 0);
      H4V_ASSERT(lid != FAIL && GRreadlut(lid, pout) == SUCCEED, "C15.S1.r8.readlut");
      for (i = 0; i < 768; i++) H4V_ASSERT(pout[i] == pal[i], "C15.S1.r8.palette: palette read through GR differs"); }
    H4V_ASSERT(GRendaccess(ri) == SUCCEED && GRend(gr) == SUCCEED && Hclose(f) == SUCCEED, "C15.S1.r8.close");
#elif MODE == 5 /* two 8-bit rasters sharing one palette (DFR8setpalette once, putimage + addimage) -> GR */
    H4V_ASSERT(DFR8setpalette(pal) == SUCCEED, "C15.S1.r8b.setpal");
    H4V_ASSERT(DFR8putimage("t.hdf", pix, XD, YD, 0) == SUCCEED, "C15.S1.r8b.put");
    H4V_ASSERT(DFR8addimage("t.hdf", pix + XD * YD, XD, YD, 0) == SUCCEED, "C15.S1.r8b.add");
    f = Hopen("t.hdf", DFACC_READ, 0);
    gr = GRstart(f);
    H4V_ASSERT(f != FAIL && gr != FAIL, "C15.S1.r8b.grstart");
    { int32 nd, nat; H4V_ASSERT(GRfileinfo(gr, &nd, &nat) == SUCCEED && nd == 2, "C15.S1.r8b.count: GR does not present exactly the two 8-bit rasters"); }
    for (c = 0; c < 2; c++) {
        int32 lid;
        ri = GRselect(gr, c);
        H4V_ASSERT(ri != FAIL && GRgetiminfo(ri, nm, &nc, &nt, &il, dims, &na) == SUCCEED, "C15.S1.r8b.info");
        H4V_ASSERT(nc == 1 && dims[0] == XD && dims[1] == YD, "C15.S1.r8b.shape");
        for (i = 0; i < XD * YD * 3 + 4; i++) out[i] = 0x4D;
        H4V_ASSERT(GRreadimage(ri, st, NULL, ed, out) == SUCCEED, "C15.S1.r8b.read");
        for (i = 0; i < XD * YD; i++) H4V_ASSERT(out[i] == pix[c * XD * YD + i], "C15.S1.r8b.pixels: 8-bit raster read through GR differs");
        lid = GRgetlutid(ri, 0);
        H4V_ASSERT(lid != FAIL && GRreadlut(lid, pout) == SUCCEED, "C15.S1.r8b.readlut: palette of an image sharing a palette cannot be read through GR");
        for (i = 0; i < 768; i++) H4V_ASSERT(pout[i] == pal[i], "C15.S1.r8b.palette: shared palette read through GR differs");
        H4V_ASSERT(GRendaccess(ri) == SUCCEED, "C15.S1.r8b.endaccess");
    }
    H4V_ASSERT(GRend(gr) == SUCCEED && Hclose(f) == SUCCEED, "C15.S1.r8b.close");
#elif MODE == 1
    f = Hopen("t.hdf", DFACC_CREATE, 16);
    gr = GRstart(f);
    dims[0] = XD; dims[1] = YD;
    ri = GRcreate(gr, "img", 1, DFNT_UINT8, MFGR_INTERLACE_PIXEL, dims);
    H4V_ASSERT(f != FAIL && gr != FAIL && ri != FAIL, "C15.S1.gr8.create");
    H4V_ASSERT(GRwriteimage(ri, st, NULL, ed, pix) == SUCCEED, "C15.S1.gr8.write");
    { int32 lid = GRgetlutid(ri, 0); H4V_ASSERT(lid != FAIL && GRwritelut(lid, 3, DFNT_UINT8, MFGR_INTERLACE_PIXEL, 256, pal) == SUCCEED, "C15.S1.gr8.writelut"); }
    H4V_ASSERT(GRendaccess(ri) == SUCCEED && GRend(gr) == SUCCEED && Hclose(f) == SUCCEED, "C15.S1.gr8.close");
    { int32 xd, yd; int isp;
      H4V_ASSERT(DFR8getdims("t.hdf", &xd, &yd, &isp) == SUCCEED, "C15.S1.gr8.getdims");
      H4V_ASSERT(xd == XD && yd == YD && isp, "C15.S1.gr8.shape: dimensions/palette flag seen through DFR8 differ"); }
    H4V_ASSERT(DFR8getimage("t.hdf", out, XD, YD, pout) == SUCCEED, "C15.S1.gr8.getimage");
    for (i = 0; i < XD * YD; i++) H4V_ASSERT(out[i] == pix[i], "C15.S1.gr8.pixels: GR image read through DFR8 differs");
    for (i = 0; i < 768; i++) H4V_ASSERT(pout[i] == pal[i], "C15.S1.gr8.palette: GR palette read through DFR8 differs");
#elif MODE == 2
    H4V_ASSERT(DF24setil(IL) == SUCCEED, "C15.S1.d24.setil");
    H4V_ASSERT(DF24putimage("t.hdf", pix, XD, YD) == SUCCEED, "C15.S1.d24.put");
    f = Hopen("t.hdf", DFACC_READ, 0);
    gr = GRstart(f);
    ri = GRselect(gr, 0);
    H4V_ASSERT(f != FAIL && gr != FAIL && ri != FAIL && GRgetiminfo(ri, nm, &nc, &nt, &il, dims, &na) == SUCCEED, "C15.S1.d24.info");
    H4V_ASSERT(nc == 3 && dims[0] == XD && dims[1] == YD && il == IL, "C15.S1.d24.shape: 24-bit raster description seen through GR differs");
    H4V_ASSERT(GRreqimageil(ri, RIL) == SUCCEED && GRreadimage(ri, st, NULL, ed, out) == SUCCEED, "C15.S1.d24.read");
    for (y = 0; y < YD; y++) for (x = 0; x < XD; x++) for (c = 0; c < 3; c++)
        H4V_ASSERT(out[bidx(RIL, x, y, c)] == pix[bidx(IL, x, y, c)], "C15.S1.d24.pixels: 24-bit raster component read through GR differs");
    H4V_ASSERT(GRendaccess(ri) == SUCCEED && GRend(gr) == SUCCEED && Hclose(f) == SUCCEED, "C15.S1.d24.close");
#elif MODE == 3
    f = Hopen("t.hdf", DFACC_CREATE, 16);
    gr = GRstart(f);
    dims[0] = XD; dims[1] = YD;
    ri = GRcreate(gr, "img", 3, DFNT_UINT8, IL, dims);
    H4V_ASSERT(f != FAIL && gr != FAIL && ri != FAIL, "C15.S1.gr24.create");
    H4V_ASSERT(GRwriteimage(ri, st, NULL, ed, pix) == SUCCEED, "C15.S1.gr24.write");
    H4V_ASSERT(GRendaccess(ri) == SUCCEED && GRend(gr) == SUCCEED && Hclose(f) == SUCCEED, "C15.S1.gr24.close");
    { int32 xd, yd; int pil;
      H4V_ASSERT(DF24getdims("t.hdf", &xd, &yd, &pil) == SUCCEED, "C15.S1.gr24.getdims");
      H4V_ASSERT(xd == XD && yd == YD, "C15.S1.gr24.shape: dimensions seen through DF24 differ"); }
    H4V_ASSERT(DF24reqil(RIL) == SUCCEED, "C15.S1.gr24.reqil");
    H4V_ASSERT(DF24getimage("t.hdf", out, XD, YD) == SUCCEED, "C15.S1.gr24.getimage");
    for (y = 0; y < YD; y++) for (x = 0; x < XD; x++) for (c = 0; c < 3; c++)
        H4V_ASSERT(out[bidx(RIL, x, y, c)] == pix[bidx(IL, x, y, c)], "C15.S1.gr24.pixels: GR image component read through DF24 differs");
#elif MODE == 4 || MODE == 6 /* 6: the second object has the SAME ref and another tag */
#define O2TAG (MODE == 6 ? 1001 : 1000)
#define O2REF (MODE == 6 ? 1 : 2)
    {
        int32 an, ann, lst[4];
        char  buf[24], lab[8] = "label1";
        f = Hopen("t.hdf", DFACC_CREATE, 16);
        H4V_ASSERT(f != FAIL && Hputelement(f, 1000, 1, pix, 4) == 4 && Hclose(f) == SUCCEED, "C15.S1.an.obj");
        H4V_ASSERT(DFANputdesc("t.hdf", 1000, 1, (char *)txt, 9) == SUCCEED, "C15.S1.an.putdesc");
        H4V_ASSERT(DFANputlabel("t.hdf", 1000, 1, lab) == SUCCEED, "C15.S1.an.putlabel");
        f = Hopen("t.hdf", DFACC_RDWR, 0);
        an = ANstart(f);
        H4V_ASSERT(f != FAIL && an != FAIL, "C15.S1.an.start");
        H4V_ASSERT(ANnumann(an, AN_DATA_DESC, 1000, 1) == 1 && ANnumann(an, AN_DATA_LABEL, 1000, 1) == 1, "C15.S1.an.numann: annotations written by DFAN are not listed by AN");
        H4V_ASSERT(ANannlist(an, AN_DATA_DESC, 1000, 1, lst) == 1, "C15.S1.an.annlist");
        H4V_ASSERT(ANannlen(lst[0]) == 9, "C15.S1.an.len: description length seen through AN differs");
        for (i = 0; i < 24; i++) buf[i] = 0x4D;
        H4V_ASSERT(ANreadann(lst[0], buf, 16) == SUCCEED, "C15.S1.an.read");
        for (i = 0; i < 9; i++) H4V_ASSERT((uint8)buf[i] == txt[i], "C15.S1.an.text: description written by DFAN read through AN differs");
        H4V_ASSERT(ANannlist(an, AN_DATA_LABEL, 1000, 1, lst) == 1 && ANannlen(lst[0]) == 6, "C15.S1.an.lablen");
        H4V_ASSERT(ANreadann(lst[0], buf, 16) == SUCCEED && strcmp(buf, "label1") == 0, "C15.S1.an.label: label written by DFAN read through AN differs");
        /* the other direction on a second object */
        H4V_ASSERT(Hputelement(f, O2TAG, O2REF, pix, 4) == 4, "C15.S1.an.obj2");
        ann = ANcreate(an, O2TAG, O2REF, AN_DATA_DESC);
        H4V_ASSERT(ann != FAIL && ANwriteann(ann, (const char *)&txt[9], 7) == SUCCEED && ANendaccess(ann) == SUCCEED, "C15.S1.an.write");
        H4V_ASSERT(ANend(an) == SUCCEED && Hclose(f) == SUCCEED, "C15.S1.an.close");
        H4V_ASSERT(DFANclear() == SUCCEED, "C15.S1.dfan.clear"); /* drop DFAN's per-process directory cache (documented reset call) */
        H4V_ASSERT(DFANgetdesclen("t.hdf", O2TAG, O2REF) == 7, "C15.S1.dfan.len: description length seen through DFAN differs");
        for (i = 0; i < 24; i++) buf[i] = 0x4D;
        H4V_ASSERT(DFANgetdesc("t.hdf", O2TAG, O2REF, buf, 16) != FAIL, "C15.S1.dfan.getdesc");
        for (i = 0; i < 7; i++) H4V_ASSERT((uint8)buf[i] == txt[9 + i], "C15.S1.dfan.text: description written by AN read through DFAN differs");
        H4V_ASSERT(DFANgetdesclen("t.hdf", 1000, 1) == 9, "C15.S1.dfan.len1: first description changed");
        /* a label for the second object through DFAN; the first object's label is untouched and both are listed by AN */
        H4V_ASSERT(DFANputlabel("t.hdf", O2TAG, O2REF, "lab2") == SUCCEED, "C15.S1.dfan.putlabel2");
        for (i = 0; i < 24; i++) buf[i] = 0x4D;
        H4V_ASSERT(DFANgetlabel("t.hdf", 1000, 1, buf, 16) != FAIL && strcmp(buf, "label1") == 0, "C15.S1.dfan.label1: the first object's label changed when another object was labelled");
        H4V_ASSERT(DFANgetlabel("t.hdf", O2TAG, O2REF, buf, 16) != FAIL && strcmp(buf, "lab2") == 0, "C15.S1.dfan.label2: the second object's label differs");
#if MODE == 4 /* (mode 6 stops here to stay inside the quick-tier budget) */
        f = Hopen("t.hdf", DFACC_READ, 0);
        an = ANstart(f);
        H4V_ASSERT(f != FAIL && an != FAIL, "C15.S1.an.start2");
        H4V_ASSERT(ANnumann(an, AN_DATA_LABEL, 1000, 1) == 1 && ANnumann(an, AN_DATA_LABEL, O2TAG, O2REF) == 1, "C15.S1.an.numann2: labels written by DFAN for two objects are not both listed by AN");
        H4V_ASSERT(ANend(an) == SUCCEED && Hclose(f) == SUCCEED, "C15.S1.an.close2");
#endif
    }
#endif
    (void)f; (void)gr; (void)ri; (void)dims; (void)nc; (void)nt; (void)il; (void)na; (void)nm; (void)x; (void)y; (void)c; (void)pout; (void)st; (void)ed;
    H4V_WITNESS();
}
