/* C16.S1 — I/O fault injection, whole real libhdf on memio.
 * The K-th stdio call of the run fails (STICKY: and every later one); SHORT selects
 * how much a failing fread/fwrite transfers.  Payload symbolic.  Assertions:
 *   - if any stdio call failed, at least one API call up to and including the final
 *     close returned its failure value;
 *   - every pointer dereference on the way is valid (CBMC checks), no hang
 *     (unwinding assertions);
 *   - if no stdio call failed (K beyond the run), every call succeeds and the data
 *     reads back (sanity of the workload itself).
 * WL selects the workload. */
#include "hdf.h"
#include "h4v.h"
#include "memio.h"
H4V_IN_ARR(uint8_t, pay, 24);
static int apifail = 0;
#define CK(expr, failval) do { memio_phase = __LINE__; if ((expr) == (failval)) apifail = 1; } while (0)
#define PH() (memio_phase = __LINE__)
static int ph_open = -1, ph_vsdetach = -1, ph_vdetach = -1, ph_vend = -1;

static void build_file(void)
{ /* fault-free construction of the file the read workloads use */
    int32 f = Hopen("t.hdf", DFACC_CREATE, 4), a, vs;
    Hputelement(f, 1000, 1, pay, 6);
    a = HLcreate(f, 1000, 2, 4, 2);
    Hwrite(a, 9, pay + 6);
    Hendaccess(a);
    Vstart(f);
    vs = VSattach(f, -1, "w");
    VSfdefine(vs, "A", DFNT_INT16, 1);
    VSsetfields(vs, "A");
    VSsetname(vs, "t");
    VSwrite(vs, pay + 16, 3, FULL_INTERLACE);
    VSdetach(vs);
    Vend(f);
    Hclose(f);
}

void harness(void)
{
    int32 f, a, vs, vg;
    uint8 out[24];
    H4V_GET_ARR(pay, 24);
#if WL >= 10
    build_file();
    H4V_ASSERT(memio_files[0].size > 0, "C16.S1.build");
#endif
    memio_ncalls = 0;
    memio_any_failed = 0;
    memio_fail_at = K;
    memio_sticky = STICKY;
    memio_short_amount = SHORT;
#if WL == 0 /* H write workload: elements, several DD blocks, linked blocks */
    ph_open = PH(); f = Hopen("t.hdf", DFACC_CREATE, 4);
    if (f == FAIL) apifail = 1;
    else {
        CK(Hputelement(f, 1000, 1, pay, 6), FAIL);
        CK(Hputelement(f, 1000, 2, pay + 6, 3), FAIL);
        CK(Hputelement(f, 1001, 1, pay + 9, 2), FAIL);
        PH(); a = HLcreate(f, 1002, 1, 4, 2);
        if (a == FAIL) apifail = 1;
        else {
            CK(Hwrite(a, 9, pay + 11), FAIL);
            CK(Hseek(a, 2, DF_START), FAIL);
            CK(Hread(a, 4, out), FAIL);
            CK(Hendaccess(a), FAIL);
        }
        CK(Hputelement(f, 1001, 2, pay + 20, 4), FAIL);
        CK(Hsync(f), FAIL);
        CK(Hdeldd(f, 1000, 2), FAIL);
        CK(Hclose(f), FAIL);
    }
#elif WL == 1 /* Vdata + Vgroup write workload */
    ph_open = PH(); f = Hopen("t.hdf", DFACC_CREATE, 16);
    if (f == FAIL) apifail = 1;
    else {
        CK(Vstart(f), FAIL);
        PH(); vs = VSattach(f, -1, "w");
        if (vs == FAIL) apifail = 1;
        else {
            CK(VSfdefine(vs, "A", DFNT_INT16, 1), FAIL);
            CK(VSfdefine(vs, "B", DFNT_UINT8, 2), FAIL);
            CK(VSsetfields(vs, "A,B"), FAIL);
            CK(VSsetname(vs, "tbl"), FAIL);
            CK(VSwrite(vs, pay, 3, FULL_INTERLACE), FAIL);
            PH(); vg = Vattach(f, -1, "w");
            if (vg == FAIL) apifail = 1;
            else {
                CK(Vsetname(vg, "grp"), FAIL);
                CK(Vinsert(vg, vs), FAIL);
                CK(Vaddtagref(vg, 1000, 1), FAIL);
                ph_vdetach = __LINE__ + 1;
                CK(Vdetach(vg), FAIL);
            }
            ph_vsdetach = __LINE__ + 1;
            CK(VSdetach(vs), FAIL);
        }
        ph_vend = __LINE__ + 1;
        CK(Vend(f), FAIL);
        CK(Hclose(f), FAIL);
    }
#elif WL == 10 /* read workload over the pre-built file */
    ph_open = PH(); f = Hopen("t.hdf", DFACC_READ, 0);
    if (f == FAIL) apifail = 1;
    else {
        int32 n;
        CK(Hgetelement(f, 1000, 1, out), FAIL);
        PH(); a = Hstartread(f, 1000, 2);
        if (a == FAIL) apifail = 1;
        else {
            CK(Hread(a, 9, out), FAIL);
            CK(Hseek(a, 3, DF_START), FAIL);
            CK(Hread(a, 4, out), FAIL);
            CK(Hendaccess(a), FAIL);
        }
        CK(Vstart(f), FAIL);
        PH(); n = VSfind(f, "t");
        if (n <= 0) apifail = 1;
        else {
            PH(); vs = VSattach(f, n, "r");
            if (vs == FAIL) apifail = 1;
            else {
                CK(VSsetfields(vs, "A"), FAIL);
                CK(VSread(vs, out, 3, FULL_INTERLACE), FAIL);
                CK(VSdetach(vs), FAIL);
            }
        }
        CK(Vend(f), FAIL);
        CK(Hclose(f), FAIL);
    }
#elif WL == 11 /* update workload on the pre-built file: overwrite + append + new objects */
    ph_open = PH(); f = Hopen("t.hdf", DFACC_RDWR, 0);
    if (f == FAIL) apifail = 1;
    else {
        PH(); a = Hstartaccess(f, 1000, 2, DFACC_RDWR | DFACC_APPENDABLE);
        if (a == FAIL) apifail = 1;
        else {
            CK(Hseek(a, 7, DF_START), FAIL);
            CK(Hwrite(a, 6, pay), FAIL);
            CK(Hendaccess(a), FAIL);
        }
        CK(Hputelement(f, 1003, 1, pay + 6, 5), FAIL);
        CK(Hputelement(f, 1003, 2, pay + 11, 5), FAIL);
        CK(Hputelement(f, 1003, 3, pay + 16, 5), FAIL);
        CK(Hclose(f), FAIL);
    }
#endif
#ifdef H4V_NATIVE
    printf("H4V-NCALLS %ld\n", memio_ncalls);
    { extern int memio_callphase[512]; long q; printf("H4V-PHASES"); for (q = 0; q < memio_ncalls && q < 512; q++) printf(" %d", memio_callphase[q]); printf("\n"); }
    printf("H4V-FAULT k=%d kind=%s pos=%ld phase(line)=%d apifail=%d\n", K, memio_failed_kind ? memio_failed_kind : "-", memio_failed_pos, memio_failed_phase, apifail);
#endif
    if (memio_any_failed && memio_failed_code == 2)
        H4V_ASSERT(apifail, "C16.S1.reported.fclose: the final fclose failed but Hclose reported success");
    else if (memio_any_failed && memio_failed_phase == ph_open && WL >= 10 && (memio_failed_code == 4 || memio_failed_code == 5) && memio_failed_pos != 0 && memio_failed_pos != 2)
        H4V_ASSERT(apifail, "C16.S1.reported.open-version: reading the library-version element during Hopen failed but every call reported success");
    else if (memio_any_failed && memio_failed_phase == ph_open && WL == 11 && memio_failed_code == 1)
        H4V_ASSERT(apifail, "C16.S1.reported.open-recreate: opening the existing file for update failed, Hopen silently created a new empty file over it and every call reported success");
    else if (memio_any_failed && memio_failed_phase == ph_vdetach)
        H4V_ASSERT(apifail, "C16.S1.reported.vdetach: a write failed inside Vdetach but every call reported success");
    else if (memio_any_failed && memio_failed_phase == ph_vsdetach)
        H4V_ASSERT(apifail, "C16.S1.reported.vsdetach: a write failed inside VSdetach but every call reported success");
    else
        H4V_ASSERT(!memio_any_failed || apifail, "C16.S1.reported: a stdio call failed but every API call including the close reported success");
    if (!memio_any_failed) H4V_ASSERT(!apifail, "C16.S1.nofault: an API call failed although no stdio call failed");
    (void)vs; (void)vg; (void)a; (void)out;
    H4V_WITNESS();
}
