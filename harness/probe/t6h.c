#include "hdf.h"
#include "h4v.h"
#include "memio.h"
#include <stdio.h>
#define T 1000
void harness(void){
  uint8 b[16]={11,12,13,14,15,16,17,18,19,20,21,22,23,24,25,26}, o[16]; int32 a, r, i; long k;
  int32 f=Hopen("t.hdf",DFACC_CREATE,5); Hcache(f,0);
  a=HLcreate(f,T,1,3,2); r=Hwrite(a,2,b); Hendaccess(a);
  printf("after HL: size=%ld\n", memio_files[0].size);
  a=Hstartaccess(f,T,2,DFACC_RDWR); Hwrite(a,5,b+2); Hendaccess(a);
  printf("after e2: size=%ld\n", memio_files[0].size);
  a=Hstartaccess(f,T,1,DFACC_RDWR|DFACC_APPENDABLE); Hseek(a,4,DF_START); r=Hwrite(a,1,b+7); printf("w=%d\n",r); Hseek(a,2,DF_START); memset(o,0x55,16); r=Hread(a,1,o); printf("r=%d byte2=%d\n",r,o[0]); Hendaccess(a);
  for (k=0;k<memio_nlog;k++) printf("log %ld: off=%ld len=%ld\n", k, memio_log[k].off, memio_log[k].len);
  Hclose(f);
}
