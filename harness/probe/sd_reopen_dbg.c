/* debugging probe (not registered): which parts of the NC handle are not concrete after SDend + SDstart */
#include "mfhdf.h"
#include "nc_priv.h"
#include "h4v.h"
NC *SDIhandle_from_id(int32 id, int typ);
#include "memio.h"
H4V_IN_ARR(uint8_t, pay, 16);
void harness(void)
{
    int32 sd, sds, dims[2] = {2, 3}, st[2] = {0, 0}, ct[2] = {2, 3}, sd2;
    NC *h; NC_var *v;
    H4V_GET_ARR(pay, 16);
    sd = SDstart("t.hdf", DFACC_CREATE);
    sds = SDcreate(sd, "v", DFNT_INT16, 2, dims);
    H4V_ASSERT(SDwritedata(sds, st, NULL, ct, pay) == SUCCEED, "dbg.write");
    H4V_ASSERT(SDendaccess(sds) == SUCCEED && SDend(sd) == SUCCEED, "dbg.end");
    { volatile int k; int32 f, vgid, vg, n; char cls[80]; NC *c; intn r;
      r = Hishdf("t.hdf");
      for (k = 0; k < (r & 3) + 2; k++) ;                 /* loop A line 20 */
      f = Hopen("t.hdf", DFACC_RDONLY, 200);
      for (k = 0; k < (f & 0xff) + 2; k++) ;              /* loop B line 22 */
      r = Vstart(f);
      for (k = 0; k < (r & 3) + 2; k++) ;                 /* loop C line 24 */
      vgid = Vgetid(f, -1);
      for (k = 0; k < (vgid & 0xf) + 2; k++) ;            /* loop D line 26 */
      vg = Vattach(f, vgid, "r");
      for (k = 0; k < (vg != FAIL) + 2; k++) ;            /* loop E line 28 */
      cls[0] = 0; Vgetclass(vg, cls);
      for (k = 0; k < (cls[0] & 3) + 2; k++) ;            /* loop F line 30 */
      n = Vntagrefs(vg);
      for (k = 0; k < (n & 0xf) + 2; k++) ;               /* loop G line 32 */
      Vdetach(vg); Vend(f); r = Hclose(f);
      for (k = 0; k < (r & 3) + 2; k++) ;                 /* loop H line 34 */
      c = NC_new_cdf("t.hdf", NC_NOWRITE);
      for (k = 0; k < (c != NULL) + 2; k++) ;             /* loop I line 36 */
      if (c) {
      for (k = 0; k < (c->vars != NULL) + 2; k++) ;       /* loop J line 38 */
      for (k = 0; k < (c->dims != NULL) + 2; k++) ;       /* loop K line 39 */
      for (k = 0; k < (int)(c->vars ? c->vars->count : 0) + 2; k++) ;  /* loop L line 40 */
      for (k = 0; k < (int)(c->dims ? c->dims->count : 0) + 2; k++) ;  /* loop M line 41 */
      }
    }
    H4V_WITNESS();
    return;
    sd2 = 0;
    H4V_ASSERT(sd2 == sd, "dbg.A sd2 == sd (same slot reused)");
    H4V_ASSERT(sd2 != FAIL, "dbg.B sd2 != FAIL");
    h = NC_check_id((int)(sd2 & 0xffff));
    H4V_ASSERT(h != NULL, "dbg.C handle found");
    if (h != NULL) {
        H4V_ASSERT(h->file_type == HDF_FILE, "dbg.D file_type");
        H4V_ASSERT(h->vars != NULL, "dbg.E vars != NULL");
        if (h->vars) {
            H4V_ASSERT(h->vars->count == 1, "dbg.F vars->count == 1");
            v = ((NC_var **)h->vars->values)[0];
            H4V_ASSERT(v != NULL, "dbg.G var ptr");
            H4V_ASSERT(v->assoc->count == 2, "dbg.H rank");
            H4V_ASSERT(v->name->len == 1, "dbg.I name len");
            H4V_ASSERT(v->HDFtype == DFNT_INT16, "dbg.J type");
            H4V_ASSERT(v->shape[0] == 2 && v->shape[1] == 3, "dbg.K shape");
            H4V_ASSERT(v->data_ref != 0, "dbg.L data_ref");
        }
        H4V_ASSERT(h->dims != NULL && h->dims->count == 2, "dbg.M dims->count == 2");
    }
    H4V_WITNESS();
}
