#include "hdf.h"
#include "h4v.h"
#include "memio.h"
H4V_IN_ARR(uint8_t, pay, 8);
void harness(void)
{
    uint8_t out[8];
    H4V_GET_ARR(pay, 8);
    int32 f = Hopen("t.hdf", DFACC_CREATE, 4);
    H4V_ASSERT(f != FAIL, "probe.open");
    H4V_ASSERT(Hputelement(f, 1000, 1, pay, 8) == 8, "probe.put");
    H4V_ASSERT(Hclose(f) == SUCCEED, "probe.close");
    f = Hopen("t.hdf", DFACC_READ, 0);
    H4V_ASSERT(f != FAIL, "probe.reopen");
    H4V_ASSERT(Hlength(f, 1000, 1) == 8, "probe.len");
    H4V_ASSERT(Hgetelement(f, 1000, 1, out) == 8, "probe.get");
    for (int i = 0; i < 8; i++) H4V_ASSERT(out[i] == pay[i], "probe.data");
    H4V_ASSERT(Hclose(f) == SUCCEED, "probe.close2");
    H4V_WITNESS();
}
