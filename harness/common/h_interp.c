/* h_interp.c — H-level scenario interpreter with a ghost reference model.
 *
 * The *skeleton* (H4V_PROG: which calls, lengths, positions, configuration) is
 * concrete and supplied by the generator; every payload byte is symbolic.  The
 * ghost model is an array of bytes per element plus a position per access id;
 * it is executed alongside the real library (whole libhdf on memio) and every
 * observable (transfer counts, positions, lengths, data) is compared.
 *
 * Serves C01 (byte streams), C12 (directory map), C02 (raw locations),
 * C14 (read-only), C16/C17 via the hooks at the end of this file.
 */
#include "hdf.h"
#include "hfile_priv.h"
#include "h4v.h"
#include "memio.h"
#ifdef H4V_C02
#include "../../oracle/h4spec.h"
#endif

#ifndef NPAY
#define NPAY 48
#endif
#ifndef GMAX
#define GMAX 64
#endif
#define NEL  4
#define NAID 4

enum {
    OP_CREATE = 0, /* x=ndds */
    OP_CLOSE,      /* */
    OP_OPEN,       /* x=access */
    OP_CACHE,      /* x=on */
    OP_STARTWRITE, /* e a x=len */
    OP_STARTACC,   /* e a x=flags */
    OP_WRITE,      /* a x=n */
    OP_READ,       /* a x=n */
    OP_SEEK,       /* a x=off y=origin */
    OP_TRUNC,      /* a x=len */
    OP_APPENDABLE, /* a */
    OP_ENDACC,     /* a */
    OP_HLCREATE,   /* e a x=block_len y=nblocks */
    OP_HXCREATE,   /* e a x=ext offset y=start_len */
    OP_DUPDD,      /* e=dst x=src */
    OP_DELDD,      /* e */
    OP_PUT,        /* e x=n */
    OP_GET,        /* e */
    OP_CHECKALL,   /* directory + content sweep */
    OP_INQUIRE,    /* a */
    OP_SYNC,       /* */
    OP_SETLEN,     /* a x=len (Hsetlength on a new element) */
    OP_HLCONVERT,  /* a x=block_len y=nblocks */
    OP_REUSE,      /* e : HDreuse_tagref */
    OP_NEWREF,     /* Htagnewref: result must not be a live ref of the tag */
    OP_HNEWREF,    /* Hnewref: result must not be a live ref of ANY tag (file-wide allocator) */
    OP_END
};

typedef struct {
    int op, e, a, x, y;
} op_t;

static const op_t PROG[] = {H4V_PROG, {OP_END, 0, 0, 0, 0}};

#ifndef H4V_TAGS
#define H4V_TAGS {1000, 1000, 1001, 1000}
#endif
#ifndef H4V_REFS
#define H4V_REFS {1, 2, 1, 7}
#endif
static const uint16 TAG[NEL] = H4V_TAGS;
static const uint16 REF[NEL] = H4V_REFS;

/* ghost state */
static struct {
    int   exists;
    int32 len;
    int   store;   /* storage index (aliases share one) */
    int   special; /* 0 plain, 1 linked, 2 external */
    int   hasdata; /* offset/length valid (Hsetlength/Hwrite happened) */
} G[NEL];
static uint8 Gdata[NEL][GMAX];
static uint8 Gdef[NEL][GMAX]; /* 0 undefined, 1 defined, 2 zero at the latest after reopen */
static struct {
    int   open, e, wr, app, isnew;
    int32 pos, id;
} A[NAID];

H4V_IN_ARR(uint8_t, pay, NPAY);
static int   pp = 0;
static int32 fid = FAIL;
static int   file_writable = 0;

#ifdef H4V_C14
static unsigned char c14_copy[MEMIO_DISK_SZ];
static long          c14_size;
static long          c14_log0;
static int           c14_armed = 0;
#endif

static void
g_write(int e, int32 pos, const uint8 *src, int32 n)
{
    int   s = G[e].store;
    int32 i;
    for (i = G[e].len; i < pos && i < GMAX; i++) {
        Gdata[s][i] = 0;
        Gdef[s][i]  = 2;
    }
    for (i = 0; i < n && pos + i < GMAX; i++) {
        Gdata[s][pos + i] = src[i];
        Gdef[s][pos + i]  = 1;
    }
    if (pos + n > G[e].len)
        G[e].len = pos + n;
}

static void
g_check(int e, int32 pos, const uint8 *got, int32 n, const char *unused)
{
    int   s = G[e].store;
    int32 i;
    (void)unused;
    for (i = 0; i < n && pos + i < GMAX; i++)
        if (Gdef[s][pos + i] == 1) {
            if (got[i] != Gdata[s][pos + i]) H4V_NOTE("H4V-NOTE read.data e=%d pos=%d got=%d want=%d\n", e, (int)(pos + i), got[i], Gdata[s][pos + i]);
            H4V_ASSERT(got[i] == Gdata[s][pos + i], "H.read.data: byte read differs from the byte last written there");
        }
}

static void
g_reopen(void)
{
    int s, i;
    for (s = 0; s < NEL; s++)
        for (i = 0; i < GMAX; i++)
            if (Gdef[s][i] == 2)
                Gdef[s][i] = 1;
    for (i = 0; i < NAID; i++)
        A[i].open = 0;
}

#ifdef H4V_C02
/* C02: after every close the bytes on "disk" must be a well-formed HDF4 file from
 * which an independent reader recovers the same logical content. */
static void
c02_check(void)
{
    static h4spec_t sp;
    static unsigned char rec[GMAX + 8];
    int  e;
    long i, n;
    int  ok = h4spec_scan(memio_files[0].data, memio_files[0].size, &sp);
    H4V_ASSERT(ok, "C02.wellformed: bytes on disk violate the HDF4 format (magic / DD chain / bounds / duplicates / overlap)");
    if (!ok) return;
    for (e = 0; e < NEL; e++) {
        int dup = 0, k;
        if (!G[e].exists || !G[e].hasdata) continue;
        for (k = 0; k < e; k++) if (G[k].exists && TAG[k] == TAG[e] && REF[k] == REF[e]) dup = 1;
        if (dup) continue;
        n = h4spec_read(memio_files[0].data, memio_files[0].size, &sp, TAG[e], REF[e], rec, GMAX, memio_files[1].exists ? (const unsigned char *)memio_files[1].data : (const unsigned char *)0,
                        memio_files[1].exists ? memio_files[1].size : 0);
        H4V_ASSERT(n != -1, "C02.special: a special element's header/tables are inconsistent with the objects they reference");
        if (n < 0) continue;
        H4V_ASSERT(n == G[e].len, "C02.length: independent reader finds a different element length than the library reported");
        for (i = 0; i < n && i < GMAX; i++)
            if (Gdef[G[e].store][i])
                H4V_ASSERT(rec[i] == Gdata[G[e].store][i], "C02.content: independent reader recovers different bytes than were written");
    }
}
#endif

static void
check_all(void)
{
    int   e, k;
    uint8 buf[GMAX];
    for (e = 0; e < NEL; e++) {
        if (!G[e].exists) {
            int dead = 1;
            for (k = 0; k < NEL; k++)
                if (G[k].exists && TAG[k] == TAG[e] && REF[k] == REF[e])
                    dead = 0;
            if (dead)
                H4V_ASSERT(Hexist(fid, TAG[e], REF[e]) == FAIL, "H.dir.absent: deleted/never created tag/ref is reported");
            continue;
        }
        H4V_ASSERT(Hexist(fid, TAG[e], REF[e]) == SUCCEED, "H.dir.exist: live tag/ref not found");
        if (G[e].hasdata) {
            H4V_ASSERT(Hlength(fid, TAG[e], REF[e]) == G[e].len, "H.dir.length: Hlength differs from true length");
            if (G[e].len > 0) {
                int32 r = Hgetelement(fid, TAG[e], REF[e], buf);
                H4V_ASSERT(r == G[e].len, "H.get.count: Hgetelement count differs from length");
                if (r == G[e].len)
                    g_check(e, 0, buf, r, "get");
            }
        }
    }
    /* counts per tag and wildcard enumeration, both directions */
    {
        uint16 tags[2];
        int    t;
        tags[0] = TAG[0];
        tags[1] = TAG[2];
        for (t = 0; t < 2; t++) {
            int want = 0;
            for (e = 0; e < NEL; e++)
                if (G[e].exists && TAG[e] == tags[t])
                    want++;
            if (t == 1 && tags[1] == tags[0])
                continue;
            H4V_ASSERT(Hnumber(fid, tags[t]) == want, "H.dir.count: Hnumber(tag) differs from live entries");
        }
    }
    {
        int    dir;
        for (dir = 0; dir < 2; dir++) {
            uint16 ft = 0, fr = 0;
            int32  fo, fl;
            int    seen[NEL], n = 0, guard = 0;
            for (e = 0; e < NEL; e++)
                seen[e] = 0;
            while (guard++ < 48 && Hfind(fid, DFTAG_WILDCARD, DFREF_WILDCARD, &ft, &fr, &fo, &fl, dir ? DF_BACKWARD : DF_FORWARD) == SUCCEED) {
                uint16 bt = (uint16)(ft & 0x4000 ? ft & ~0x4000 : ft);
                if (bt == DFTAG_VERSION || bt == DFTAG_LINKED || ft == DFTAG_NULL || ft == DFTAG_FREE)
                    continue;
                for (e = 0; e < NEL; e++)
                    if (G[e].exists && TAG[e] == bt && REF[e] == fr) {
                        H4V_ASSERT(!seen[e], "H.dir.find.once: wildcard search visits an entry twice");
                        seen[e] = 1;
                        n++;
                        break;
                    }
                H4V_ASSERT(e < NEL, "H.dir.find.ghost: wildcard search returns an entry that does not exist");
            }
            for (e = 0; e < NEL; e++)
                if (G[e].exists)
                    H4V_ASSERT(seen[e], "H.dir.find.all: wildcard search misses a live entry");
        }
    }
    /* searches with one wildcard: (any tag, this ref) and (this tag, any ref), both directions */
    for (e = 0; e < NEL; e++) {
        int dir, k2;
        if (!G[e].exists)
            continue;
        for (dir = 0; dir < 2; dir++) {
            uint16 ft = 0, fr = 0;
            int32  fo, fl;
            int    n = 0, want = 0, hit = 0, guard = 0;
            for (k2 = 0; k2 < NEL; k2++)
                if (G[k2].exists && REF[k2] == REF[e])
                    want++;
            while (guard++ < 48 && Hfind(fid, DFTAG_WILDCARD, REF[e], &ft, &fr, &fo, &fl, dir ? DF_BACKWARD : DF_FORWARD) == SUCCEED) {
                uint16 bt = (uint16)(ft & 0x4000 ? ft & ~0x4000 : ft);
                if (bt == DFTAG_VERSION || bt == DFTAG_LINKED)
                    continue;
                H4V_ASSERT(fr == REF[e], "H.dir.findref.other: search by reference returns another reference");
                if (bt == TAG[e])
                    hit++;
                n++;
            }
            H4V_ASSERT(n == want && hit == 1, "H.dir.findref: search (any tag, this ref) does not enumerate exactly the live entries with that ref");
            ft = 0; fr = 0; n = 0; want = 0; hit = 0; guard = 0;
            for (k2 = 0; k2 < NEL; k2++)
                if (G[k2].exists && TAG[k2] == TAG[e])
                    want++;
            while (guard++ < 48 && Hfind(fid, TAG[e], DFREF_WILDCARD, &ft, &fr, &fo, &fl, dir ? DF_BACKWARD : DF_FORWARD) == SUCCEED) {
                if (fr == REF[e])
                    hit++;
                n++;
            }
            H4V_ASSERT(n == want && hit == 1, "H.dir.findtag: search (this tag, any ref) does not enumerate exactly the live entries of that tag");
        }
    }
}

void
harness(void)
{
    int   pc;
    uint8 out[GMAX];
    H4V_GET_ARR(pay, NPAY);
    for (pc = 0; PROG[pc].op != OP_END; pc++) {
        const op_t *o = &PROG[pc];
        int         e = o->e, a = o->a;
        switch (o->op) {
            case OP_CREATE:
                fid = Hopen("t.hdf", DFACC_CREATE, (int16)o->x);
                H4V_ASSERT(fid != FAIL, "H.open.create");
                file_writable = 1;
                break;
            case OP_CLOSE: {
                int i, att = 0;
                for (i = 0; i < NAID; i++)
                    att += A[i].open;
                if (att) {
                    H4V_ASSERT(Hclose(fid) == FAIL, "H.close.attached: Hclose with attached access ids must fail");
                }
                else {
                    H4V_ASSERT(Hclose(fid) == SUCCEED, "H.close");
                    fid = FAIL;
                    g_reopen();
#ifdef H4V_C02
                    c02_check();
#endif
                }
                break;
            }
            case OP_OPEN:
#ifdef H4V_C14
                if (!(o->x & DFACC_WRITE)) {
                    long i;
                    c14_size = memio_files[0].size;
                    for (i = 0; i < c14_size; i++)
                        c14_copy[i] = memio_files[0].data[i];
                    c14_log0  = memio_nlog;
                    c14_armed = 1;
                }
#endif
                fid = Hopen("t.hdf", o->x, 0);
                H4V_ASSERT(fid != FAIL, "H.open");
                file_writable = (o->x & DFACC_WRITE) ? 1 : 0;
                break;
            case OP_CACHE:
                H4V_ASSERT(Hcache(fid, o->x) == SUCCEED, "H.cache");
                break;
            case OP_SYNC:
                H4V_ASSERT(Hsync(fid) == SUCCEED, "H.sync");
                break;
            case OP_STARTWRITE: {
                int32 id = Hstartwrite(fid, TAG[e], REF[e], o->x);
                if (!file_writable) {
                    H4V_ASSERT(id == FAIL, "H.ro.startwrite: write access granted on a read-only file");
                    break;
                }
                H4V_ASSERT(id != FAIL, "H.startwrite");
                A[a].open = 1;
                A[a].e = e;
                A[a].wr = 1;
                A[a].app = 0;
                A[a].pos = 0;
                A[a].id = id;
                A[a].isnew = 0;
                if (!G[e].exists) {
                    int i;
                    G[e].exists = 1;
                    G[e].len = o->x;
                    G[e].store = e;
                    G[e].hasdata = 1;
                    G[e].special = 0;
                    for (i = 0; i < GMAX; i++)
                        Gdef[e][i] = 0;
                }
                break;
            }
            case OP_STARTACC: {
                uint32 fl = 0;
                int32  id;
                if (o->x & 1) fl |= DFACC_READ;
                if (o->x & 2) fl |= DFACC_WRITE;
                if (o->x & 4) fl |= DFACC_APPENDABLE;
                id = Hstartaccess(fid, TAG[e], REF[e], fl);
                if ((o->x & 2) && !file_writable) {
                    H4V_ASSERT(id == FAIL, "H.ro.startaccess: write access granted on a read-only file");
                    break;
                }
                if (!G[e].exists && !(o->x & 2)) {
                    H4V_ASSERT(id == FAIL, "H.startaccess.absent: read access to a non-existent element must fail");
                    break;
                }
                H4V_ASSERT(id != FAIL, "H.startaccess");
                A[a].open = 1;
                A[a].e = e;
                A[a].wr = (o->x & 2) ? 1 : 0;
                A[a].app = (o->x & 4) ? 1 : 0;
                A[a].pos = 0;
                A[a].id = id;
                A[a].isnew = 0;
                if (!G[e].exists) {
                    int i;
                    G[e].exists = 1;
                    G[e].len = 0;
                    G[e].store = e;
                    G[e].hasdata = 0;
                    G[e].special = 0;
                    A[a].isnew = 1;
                    for (i = 0; i < GMAX; i++)
                        Gdef[e][i] = 0;
                }
                else if (!G[e].hasdata)
                    A[a].isnew = 1;
                break;
            }
            case OP_SETLEN: {
                int r = Hsetlength(A[a].id, o->x);
                if (A[a].isnew) {
                    H4V_ASSERT(r == SUCCEED, "H.setlength");
                    G[A[a].e].len = o->x;
                    G[A[a].e].hasdata = 1;
                    A[a].isnew = 0;
                }
                else
                    H4V_ASSERT(r == FAIL, "H.setlength.notnew: length of an existing element changed");
                break;
            }
            case OP_WRITE: {
                int   ee = A[a].e;
                int32 n = o->x, r;
                r = Hwrite(A[a].id, n, &pay[pp]);
                if (!A[a].wr) {
                    H4V_ASSERT(r == FAIL, "H.write.noaccess: write through a read-only access id must fail");
                    break;
                }
                if (A[a].isnew) { /* first write defines the element and makes it appendable */
                    A[a].isnew = 0;
                    A[a].app = 1;
                    G[ee].hasdata = 1;
                    G[ee].len = 0;
                }
                if (!A[a].app && A[a].pos + n > G[ee].len && G[ee].special == 0) {
                    H4V_ASSERT(r == FAIL, "H.write.pastend: write past the end of a non-appendable element must fail");
                    break;
                }
                H4V_ASSERT(r == n, "H.write.count: Hwrite transfer count");
                if (r == n) {
                    g_write(ee, A[a].pos, &pay[pp], n);
                    A[a].pos += n;
                    pp += n;
                }
                break;
            }
            case OP_READ: {
                int   ee = A[a].e;
                int32 n = o->x, want, r;
                int   i;
                for (i = 0; i < GMAX; i++)
                    out[i] = 0xA5;
                r = Hread(A[a].id, n, out);
                if (A[a].isnew) {
                    H4V_ASSERT(r == FAIL, "H.read.new: read of an element with no data must fail");
                    break;
                }
                want = n;
                if (n == 0 || A[a].pos + n > G[ee].len)
                    want = G[ee].len - A[a].pos;
                if (want < 0) { /* position beyond the end (appendable seek): nothing to read */
                    break;
                }
#ifdef H4V_SKIP_EOF_READ
                if (want == 0)
                    break;
#endif
                H4V_ASSERT(r == want, "H.read.count: Hread transfer count differs from the true one");
                if (r == want) {
                    g_check(ee, A[a].pos, out, r, "read");
                    for (i = (r > 0 ? r : 0); i < GMAX; i++)
                        H4V_ASSERT(out[i] == 0xA5, "H.read.overrun: Hread wrote beyond the bytes it reported");
                    A[a].pos += r;
                }
                H4V_ASSERT(Htell(A[a].id) == A[a].pos, "H.read.tell: position after read");
                break;
            }
            case OP_SEEK: {
                int   ee = A[a].e;
                int32 t = o->x, r;
                if (o->y == DF_CURRENT) t += A[a].pos;
                if (o->y == DF_END) t += G[ee].len;
                r = Hseek(A[a].id, o->x, o->y);
                if (t < 0) {
                    H4V_ASSERT(r == FAIL, "H.seek.negative: seek before the start must fail");
                    break;
                }
                if (t > G[ee].len && !A[a].app && G[ee].special == 0 && t != A[a].pos) {
                    H4V_ASSERT(r == FAIL, "H.seek.pastend: seek past the end of a non-appendable element must fail");
                    break;
                }
                H4V_ASSERT(r == SUCCEED, "H.seek");
                if (r == SUCCEED) {
                    A[a].pos = t;
                    H4V_ASSERT(Htell(A[a].id) == t, "H.seek.tell: Htell after Hseek");
                }
                break;
            }
            case OP_TRUNC: {
                int   ee = A[a].e;
                int32 r = Htrunc(A[a].id, o->x);
                if (A[a].wr && G[ee].len > o->x && G[ee].special == 0) {
                    H4V_ASSERT(r == o->x, "H.trunc");
                    G[ee].len = o->x;
                    if (A[a].pos > o->x)
                        A[a].pos = o->x;
                }
                else if (G[ee].special == 0)
                    H4V_ASSERT(r == FAIL, "H.trunc.refuse: truncation that cannot apply must fail");
                break;
            }
            case OP_APPENDABLE:
                H4V_ASSERT(Happendable(A[a].id) == SUCCEED, "H.appendable");
                A[a].app = 1;
                break;
            case OP_ENDACC:
                H4V_ASSERT(Hendaccess(A[a].id) == SUCCEED, "H.endaccess");
                A[a].open = 0;
                break;
            case OP_INQUIRE: {
                int32  f2, len, off, posn;
                uint16 t2, r2;
                int16  acc, sp;
                int    ee = A[a].e;
                H4V_ASSERT(Hinquire(A[a].id, &f2, &t2, &r2, &len, &off, &posn, &acc, &sp) == SUCCEED, "H.inquire");
                H4V_ASSERT(f2 == fid && (uint16)(t2 & ~0x4000) == TAG[ee] && r2 == REF[ee], "H.inquire.ident: access id designates another object");
                if (!A[a].isnew)
                    H4V_ASSERT(len == G[ee].len, "H.inquire.length: reported length differs from the true one");
                H4V_ASSERT(posn == A[a].pos, "H.inquire.posn: reported position differs from the true one");
                break;
            }
            case OP_HLCREATE: {
                int32 id = HLcreate(fid, TAG[e], REF[e], o->x, o->y);
                if (!file_writable) {
                    H4V_ASSERT(id == FAIL, "H.ro.hlcreate: linked-block element created on a read-only file");
                    break;
                }
                H4V_ASSERT(id != FAIL, "H.hlcreate");
                A[a].open = 1;
                A[a].e = e;
                A[a].wr = 1;
                A[a].app = 1;
                A[a].pos = 0;
                A[a].id = id;
                A[a].isnew = 0;
                if (!G[e].exists) {
                    G[e].exists = 1;
                    G[e].len = 0;
                    G[e].store = e;
                }
                G[e].hasdata = 1;
                G[e].special = 1;
                break;
            }
            case OP_HLCONVERT: {
                int r = HLconvert(A[a].id, o->x, o->y);
                H4V_ASSERT(r == SUCCEED, "H.hlconvert");
                G[A[a].e].special = 1;
                break;
            }
            case OP_HXCREATE: {
                int32 id = HXcreate(fid, TAG[e], REF[e], "x.dat", o->x, o->y);
                if (!file_writable) {
                    H4V_ASSERT(id == FAIL, "H.ro.hxcreate: external element created on a read-only file");
                    break;
                }
                H4V_ASSERT(id != FAIL, "H.hxcreate");
                A[a].open = 1;
                A[a].e = e;
                A[a].wr = 1;
                A[a].app = 1;
                A[a].pos = 0;
                A[a].id = id;
                A[a].isnew = 0;
                if (!G[e].exists) {
                    G[e].exists = 1;
                    G[e].len = 0;
                    G[e].store = e;
                }
                G[e].hasdata = 1;
                G[e].special = 2;
                break;
            }
            case OP_DUPDD: {
                int src = o->x;
                int r = Hdupdd(fid, TAG[e], REF[e], TAG[src], REF[src]);
                if (!file_writable) {
                    H4V_ASSERT(r == FAIL, "H.ro.dupdd: descriptor duplicated on a read-only file");
                    break;
                }
                H4V_ASSERT(r == SUCCEED, "H.dupdd");
                G[e] = G[src];
                break;
            }
            case OP_DELDD: {
                int r = Hdeldd(fid, TAG[e], REF[e]);
                if (!file_writable) {
                    H4V_ASSERT(r == FAIL, "H.ro.deldd: descriptor deleted on a read-only file");
                    break;
                }
                if (G[e].exists) {
                    H4V_ASSERT(r == SUCCEED, "H.deldd");
                    G[e].exists = 0;
                }
                else
                    H4V_ASSERT(r == FAIL, "H.deldd.absent: deleting a non-existent descriptor must fail");
                break;
            }
            case OP_REUSE: {
                int r = HDreuse_tagref(fid, TAG[e], REF[e]);
                if (G[e].exists && file_writable) {
                    H4V_ASSERT(r == SUCCEED, "H.reuse");
                    G[e].hasdata = 0;
                    G[e].len = 0;
                    G[e].special = 0;
                }
                break;
            }
            case OP_PUT: {
                int32 n = o->x, r;
                int   i;
                r = Hputelement(fid, TAG[e], REF[e], &pay[pp], n);
                if (!file_writable) {
                    H4V_ASSERT(r == FAIL, "H.ro.put: element written on a read-only file");
                    break;
                }
                if (!G[e].exists || !G[e].hasdata) {
                    H4V_ASSERT(r == n, "H.put.count");
                    G[e].exists = 1;
                    G[e].store = e;
                    G[e].len = 0;
                    G[e].hasdata = 1;
                    G[e].special = 0;
                    for (i = 0; i < GMAX; i++)
                        Gdef[e][i] = 0;
                    g_write(e, 0, &pay[pp], n);
                    pp += n;
                }
                else if (n <= G[e].len) { /* overwrite of the prefix, length unchanged */
                    H4V_ASSERT(r == n, "H.put.over.count");
                    g_write(e, 0, &pay[pp], n);
                    pp += n;
                }
                else if (G[e].special == 0)
                    H4V_ASSERT(r == FAIL, "H.put.toolong: Hputelement longer than the existing element must fail");
                break;
            }
            case OP_GET: {
                int32 r = Hgetelement(fid, TAG[e], REF[e], out);
                if (!G[e].exists || !G[e].hasdata || G[e].len == 0)
                    H4V_ASSERT(r == FAIL, "H.get.absent");
                else {
                    H4V_ASSERT(r == G[e].len, "H.get.count");
                    if (r == G[e].len)
                        g_check(e, 0, out, r, "get");
                }
                break;
            }
            case OP_NEWREF: {
                uint16 r = Htagnewref(fid, TAG[e]);
                int    k;
                H4V_ASSERT(r != 0, "H.newref.zero: no reference issued although references are free");
                for (k = 0; k < NEL; k++)
                    if (G[k].exists && TAG[k] == TAG[e])
                        H4V_ASSERT(REF[k] != r, "H.newref.inuse: newly issued reference is already in use for the tag");
                break;
            }
            case OP_HNEWREF: {
                uint16 r = Hnewref(fid);
                int    k;
                H4V_ASSERT(r != 0, "H.hnewref.zero: no reference issued although references are free");
                for (k = 0; k < NEL; k++)
                    if (G[k].exists)
                        H4V_ASSERT(REF[k] != r, "H.hnewref.inuse: newly issued reference is already in use in the file");
                break;
            }
            case OP_CHECKALL:
                check_all();
                break;
            default:
                break;
        }
    }
#ifdef H4V_C14
    if (c14_armed) {
        long i;
        H4V_ASSERT(memio_nlog == c14_log0, "C14.nowrite: a write reached the file while it was open read-only");
        H4V_ASSERT(!memio_ro_write_attempt, "C14.rowrite: the library attempted to write to a read-only stream");
        H4V_ASSERT(memio_files[0].size == c14_size, "C14.size: file size changed under read-only access");
        for (i = 0; i < c14_size; i++)
            H4V_ASSERT(memio_files[0].data[i] == c14_copy[i], "C14.bytes: file bytes changed under read-only access");
    }
#endif
    H4V_WITNESS();
}
