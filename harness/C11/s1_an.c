/* C11.S1 — annotation scenario, whole real libhdf on memio.  The history (which
 * annotations exist, on which object, text lengths, rewrites, reopen) is concrete;
 * every text byte is symbolic (descriptions may contain NUL bytes).
 * Annotations: slot i has type TY[i], target (TG[i],RF[i]) (ignored for file
 * annotations), first length L1[i], optional rewrite length L2[i] (-1 = none). */
#include "hdf.h"
#include "h4v.h"
#include "memio.h"
#define NA 4
#define TMAX 12
static const int  TY[NA] = {H4V_TY};
static const int  TG[NA] = {H4V_TG};
static const int  RF[NA] = {H4V_RF};
static const int  L1[NA] = {H4V_L1};
static const int  L2[NA] = {H4V_L2};
H4V_IN_ARR(uint8_t, txt, 2 * NA * TMAX);

static uint8 G[NA][TMAX];
static int   GL[NA];
static int32 id[NA];
static uint16 atag[NA], aref[NA];

static int is_label(int t) { return t == AN_DATA_LABEL || t == AN_FILE_LABEL; }

static void check_all(int32 an, int reopened)
{
    int32 nfl, nfd, ndl, ndd, i, k;
    int   cnt[4] = {0, 0, 0, 0};
    for (i = 0; i < NA; i++) cnt[TY[i]]++;
    H4V_ASSERT(ANfileinfo(an, &nfl, &nfd, &ndl, &ndd) == SUCCEED, "C11.S1.fileinfo");
    H4V_ASSERT(nfl == cnt[AN_FILE_LABEL] && nfd == cnt[AN_FILE_DESC] && ndl == cnt[AN_DATA_LABEL] && ndd == cnt[AN_DATA_DESC],
               "C11.S1.fileinfo.counts: annotation counts per type differ from the annotations that exist");
    for (i = 0; i < NA; i++) {
        int32  a, len, t2;
        uint16 tg, rf;
        char   buf[TMAX + 4];
        if (reopened) { /* ids are per session: find the annotation again by its tag/ref */
            a = ANtagref2id(an, atag[i], aref[i]);
            H4V_ASSERT(a != FAIL, "C11.S1.tagref2id: stored annotation not found by tag/ref after reopen");
        }
        else
            a = id[i];
        H4V_ASSERT(ANid2tagref(a, &tg, &rf) == SUCCEED && tg == atag[i] && rf == aref[i], "C11.S1.id2tagref: id maps to another tag/ref");
        H4V_ASSERT(ANget_tagref(an, 0, (ann_type)TY[i], &tg, &rf) != FAIL, "C11.S1.get_tagref");
        len = ANannlen(a);
        H4V_ASSERT(len == GL[i], "C11.S1.annlen: annotation length differs from the text written");
        for (k = 0; k < TMAX + 4; k++) buf[k] = 0x55;
        H4V_ASSERT(ANreadann(a, buf, TMAX + 2) == SUCCEED, "C11.S1.readann");
        for (k = 0; k < GL[i]; k++) H4V_ASSERT((uint8)buf[k] == G[i][k], "C11.S1.text: annotation text differs from the text written");
        if (is_label(TY[i])) H4V_ASSERT(buf[GL[i]] == 0, "C11.S1.label.nul: label not NUL-terminated");
        for (k = GL[i] + 1; k < TMAX + 4; k++) H4V_ASSERT(buf[k] == 0x55, "C11.S1.read.overrun: ANreadann wrote beyond text (+NUL)");
#ifdef SHORTBUF
        /* truncating read into a short buffer must stay inside the buffer */
        for (k = 0; k < TMAX + 4; k++) buf[k] = 0x55;
        H4V_ASSERT(ANreadann(a, buf, SHORTBUF) == SUCCEED, "C11.S1.readann.short");
        for (k = SHORTBUF; k < TMAX + 4; k++) H4V_ASSERT(buf[k] == 0x55, "C11.S1.short.overrun: truncating ANreadann wrote beyond the caller's buffer");
#endif
        /* list of annotations of this object */
        if (!is_label(TY[i]) || 1) {
            int32 lst[NA + 1], n, want = 0, j, hit = 0;
            if (TY[i] == AN_DATA_LABEL || TY[i] == AN_DATA_DESC) {
                for (j = 0; j < NA; j++) if (TY[j] == TY[i] && TG[j] == TG[i] && RF[j] == RF[i]) want++;
                n = ANnumann(an, (ann_type)TY[i], (uint16)TG[i], (uint16)RF[i]);
                H4V_ASSERT(n == want, "C11.S1.numann: number of annotations of the object differs");
                H4V_ASSERT(ANannlist(an, (ann_type)TY[i], (uint16)TG[i], (uint16)RF[i], lst) == want, "C11.S1.annlist.count");
                for (j = 0; j < want; j++) {
                    uint16 t3, r3;
                    H4V_ASSERT(ANid2tagref(lst[j], &t3, &r3) == SUCCEED, "C11.S1.annlist.id");
                    if (t3 == atag[i] && r3 == aref[i]) hit++;
                }
                H4V_ASSERT(hit == 1, "C11.S1.annlist.member: the object's annotation list does not contain the annotation exactly once");
            }
        }
        (void)t2;
    }
}

void harness(void)
{
    int32 f, an;
    int   i, k, pool = 0;
    H4V_GET_ARR(txt, 2 * NA * TMAX);
    f = Hopen("t.hdf", DFACC_CREATE, 16);
    H4V_ASSERT(f != FAIL, "C11.S1.open");
    H4V_ASSERT(Hputelement(f, 1000, 1, txt, 2) == 2 && Hputelement(f, 1000, 2, txt, 2) == 2, "C11.S1.objects");
    an = ANstart(f);
    H4V_ASSERT(an != FAIL, "C11.S1.start");
    for (i = 0; i < NA; i++) {
        if (TY[i] == AN_DATA_LABEL || TY[i] == AN_DATA_DESC) id[i] = ANcreate(an, (uint16)TG[i], (uint16)RF[i], (ann_type)TY[i]);
        else id[i] = ANcreatef(an, (ann_type)TY[i]);
        H4V_ASSERT(id[i] != FAIL, "C11.S1.create");
        for (k = 0; k < i; k++) H4V_ASSERT(id[k] != id[i], "C11.S1.ids.distinct");
        /* labels are NUL-free text */
        H4V_ASSERT(ANwriteann(id[i], (const char *)&txt[pool * TMAX], L1[i]) == SUCCEED, "C11.S1.writeann");
        for (k = 0; k < L1[i]; k++) G[i][k] = txt[pool * TMAX + k];
        GL[i] = L1[i];
        pool++;
        H4V_ASSERT(ANid2tagref(id[i], &atag[i], &aref[i]) == SUCCEED, "C11.S1.id2tagref0");
    }
    check_all(an, 0);
    /* rewrites (longer / shorter): identity must not change, others untouched */
    for (i = 0; i < NA; i++)
        if (L2[i] >= 0) {
            uint16 t2, r2;
            H4V_ASSERT(ANwriteann(id[i], (const char *)&txt[pool * TMAX], L2[i]) == SUCCEED, "C11.S1.rewrite");
            for (k = 0; k < L2[i]; k++) G[i][k] = txt[pool * TMAX + k];
            GL[i] = L2[i];
            pool++;
            H4V_ASSERT(ANid2tagref(id[i], &t2, &r2) == SUCCEED && t2 == atag[i] && r2 == aref[i], "C11.S1.rewrite.identity: rewriting changed the annotation's tag/ref");
        }
    check_all(an, 0);
    for (i = 0; i < NA; i++) H4V_ASSERT(ANendaccess(id[i]) == SUCCEED, "C11.S1.endaccess");
    H4V_ASSERT(ANend(an) == SUCCEED, "C11.S1.end");
    H4V_ASSERT(Hclose(f) == SUCCEED, "C11.S1.close");
    f = Hopen("t.hdf", DFACC_READ, 0);
    H4V_ASSERT(f != FAIL, "C11.S1.reopen");
    an = ANstart(f);
    H4V_ASSERT(an != FAIL, "C11.S1.start2");
    check_all(an, 1);
    H4V_ASSERT(ANend(an) == SUCCEED, "C11.S1.end2");
    H4V_ASSERT(Hclose(f) == SUCCEED, "C11.S1.close2");
    H4V_WITNESS();
}
