/* C20.K2 — 16-bit counters at their limit.  vinsertpair (real vgp.c): from an arbitrary
 * valid Vgroup state (member count anywhere in 0..65535, capacity above it) one more
 * member is either refused or appended at the end with the count incremented — the
 * 16-bit count never wraps. */
#include "hdf.h"
#include "h4v.h"
#include "hdf_priv.h"
#include "vg_priv.h"
int32 vinsertpair(VGROUP *vg, uint16 tag, uint16 ref);
H4V_IN(uint16_t, n0);
H4V_IN(uint16_t, tag);
H4V_IN(uint16_t, ref);
static uint16 TAGS[65600], REFS[65600];

void harness(void)
{
    VGROUP vg;
    int32  r;
    H4V_GET(n0); H4V_GET(tag); H4V_GET(ref);
    n0 = N0; /* member count enumerated at the limits (a symbolic index into a 65536-entry list does not finish); tag/ref symbolic */
    memset(&vg, 0, sizeof vg);
    vg.nvelt = n0; vg.msize = MSIZE; vg.tag = TAGS; vg.ref = REFS;
    r = vinsertpair(&vg, tag, ref);
    if (r != FAIL) {
        H4V_ASSERT(vg.nvelt == (uint16)(n0 + 1) && vg.nvelt > n0, "C20.K2.members.wrap: the 16-bit member count wrapped around");
        H4V_ASSERT(r == (int32)n0 + 1, "C20.K2.members.ret: returned member count differs from the true one");
        H4V_ASSERT(TAGS[n0] == tag && REFS[n0] == ref, "C20.K2.members.slot: member not stored at the end of the list");
    }
    else
        H4V_ASSERT(vg.nvelt == n0, "C20.K2.members.failclean: refused insertion changed the member count");
    H4V_WITNESS();
}
