/* C20.K3 — Vdata record size at the 65535-byte limit.  Whole real libhdf on memio:
 * a new Vdata gets two user-defined uint8 fields whose orders n1, n2 are symbolic
 * (each 1..65535, individually legal; the two symbol-table entries are written
 * directly, exactly as VSfdefine leaves them, because a symbolic order makes the
 * entry count non-constant for the engine), then both are selected in one VSsetfields.
 * If n1 + n2 exceeds 65535 the call must fail; otherwise it succeeds and the record
 * size stored is exactly n1 + n2 (the 16-bit size never wraps).  With -DN1C/-DN2C the
 * orders are a concrete boundary pair and the harness goes on: a legal field list is
 * accepted after the refused one, the handle detaches and the file closes. */
#include "hdf.h"
#include "h4v.h"
#include "memio.h"
#include "hdf_priv.h"
#include "vg_priv.h"
#define FIELDS (NF == 2 ? "fa,fb" : "fa")
H4V_IN(uint16_t, n1);
H4V_IN(uint16_t, n2);

void harness(void)
{
    int32 f, vs, r, sz;
    H4V_GET(n1); H4V_GET(n2);
    H4V_ASSUME(n1 >= 1 && n2 >= 1);
    f = Hopen("t.hdf", DFACC_CREATE, 16);
    H4V_ASSERT(f != FAIL && Vstart(f) == SUCCEED, "C20.K3.open");
    vs = VSattach(f, -1, "w");
    H4V_ASSERT(vs != FAIL, "C20.K3.attach");
    {
        vsinstance_t *w = (vsinstance_t *)HAatom_object(vs);
        VDATA        *v = w->vs;
        H4V_ASSERT(v != NULL && v->usym == NULL && v->nusym == 0, "C20.K3.fresh");
        v->usym = (SYMDEF *)malloc(2 * sizeof(SYMDEF));
        v->usym[0].name = strdup("fa"); v->usym[0].type = DFNT_UINT8; v->usym[0].isize = 1; v->usym[0].order = n1;
        v->usym[1].name = strdup("fb"); v->usym[1].type = DFNT_UINT8; v->usym[1].isize = 1; v->usym[1].order = n2;
        v->nusym = 2;
    }
#ifdef N1C /* concrete boundary pair: refused (or accepted), and the library stays usable afterwards */
    n1 = N1C; n2 = N2C;
    { vsinstance_t *w = (vsinstance_t *)HAatom_object(vs); w->vs->usym[0].order = n1; w->vs->usym[1].order = n2; }
#endif
    r = VSsetfields(vs, FIELDS);
    if ((int32)n1 + (NF == 2 ? (int32)n2 : 0) > 65535)
        H4V_ASSERT(r == FAIL, "C20.K3.recsize.refuse: a record longer than 65535 bytes was accepted");
    else {
        vsinstance_t *w = (vsinstance_t *)HAatom_object(vs);
        H4V_ASSERT(r == SUCCEED, "C20.K3.recsize.accept: a record of at most 65535 bytes was refused");
        if (r == SUCCEED)
            H4V_ASSERT((int32)w->vs->wlist.ivsize == (int32)n1 + (NF == 2 ? (int32)n2 : 0), "C20.K3.recsize.wrap: stored record size differs from the sum of the field sizes");
    }
#ifdef N1C
    if (r == FAIL) {
        H4V_ASSERT(VSsetfields(vs, "fa") == SUCCEED, "C20.K3.usable.setfields: a legal field list is refused after the over-long one");
        sz = VSsizeof(vs, "fa");
        H4V_ASSERT(sz == (int32)n1, "C20.K3.usable.sizeof: record size wrong after the refused request");
    }
    H4V_ASSERT(VSdetach(vs) == SUCCEED, "C20.K3.detach: Vdata unusable after the limit test");
    H4V_ASSERT(Vend(f) == SUCCEED && Hclose(f) == SUCCEED, "C20.K3.close: file unusable after the limit test");
#endif
    (void)sz;
    H4V_WITNESS();
}
