/* C20.K1 — end-of-file and element offset/length arithmetic near 2^31-1.
 * Whole real libhdf; the file/access records are created through the public API
 * and then moved to an arbitrary valid state (symbolic end-of-file offset, element
 * position) that a history of reserved (never written) elements and appendable
 * seeks reaches.  MODE selects the operation under test. */
#include "hdf.h"
#include "hfile_priv.h"
#include "h4v.h"
#include "memio.h"
#include <limits.h>
H4V_IN(int32_t, end_off);
H4V_IN(int32_t, bs);
H4V_IN(int32_t, posn);
H4V_IN(int32_t, len);
H4V_IN(uint8_t, cache);
H4V_IN(uint8_t, moveto);
H4V_IN_ARR(uint8_t, pay, 8);

void harness(void)
{
    int32      f, aid;
    filerec_t *fr;
    H4V_GET(end_off); H4V_GET(bs); H4V_GET(posn); H4V_GET(len); H4V_GET(cache); H4V_GET(moveto);
    H4V_GET_ARR(pay, 8);
    memio_sparse = 1;
    f = Hopen("t.hdf", DFACC_CREATE, 16);
    H4V_ASSERT(f != FAIL, "C20.K1.open");
    fr = (filerec_t *)HAatom_object(f);
    H4V_ASSUME(cache <= 1 && moveto <= 1);
#if MODE == 0 /* HPgetdiskblock from any end-of-file offset */
    H4V_ASSUME(end_off >= fr->f_end_off);
    fr->f_end_off = end_off;
    fr->cache = cache;
    {
        int32 r = HPgetdiskblock(fr, bs, moveto);
        if (r != FAIL) {
            H4V_ASSERT(r == end_off, "C20.K1.gdb.offset: block not placed at the end of the file");
            H4V_ASSERT(fr->f_end_off >= end_off && (int64_t)fr->f_end_off == (int64_t)end_off + bs,
                       "C20.K1.gdb.wrap: end-of-file offset wrapped past 2^31-1");
        }
        else
            H4V_ASSERT(fr->f_end_off == end_off, "C20.K1.gdb.failclean: failed reservation changed the end-of-file offset");
    }
#elif MODE == 1 /* reserve elements (Hstartwrite) when the file already ends near the limit: boundary table */
    {
        static const int32 ENDS[] = {0x7ffffeff, 0x7ffffffe, 0x7fffffff};
        static const int32 LENS[] = {0, 1, 0x100, 0x101, 0x10000, 0x7fffffff};
        int                i, j;
        uint16             ref = 1;
        int32              base_end = fr->f_end_off;
        for (i = 0; i < 3; i++)
            for (j = 0; j < 6; j++, ref++) {
                int32 before;
                fr->f_end_off = ENDS[i];
                before = fr->f_end_off;
                aid = Hstartwrite(f, 1000, ref, LENS[j]);
                if ((int64_t)ENDS[i] + LENS[j] > INT_MAX)
                    H4V_ASSERT(aid == FAIL, "C20.K1.sw.refuse: reservation beyond 2^31-1 accepted");
                if (aid != FAIL) {
                    int32 off, l2;
                    H4V_ASSERT(Hinquire(aid, NULL, NULL, NULL, &l2, &off, NULL, NULL, NULL) == SUCCEED, "C20.K1.sw.inq");
                    H4V_ASSERT(off >= 0 && l2 == LENS[j] && (int64_t)off + l2 <= INT_MAX, "C20.K1.sw.range: stored offset/length outside [0,2^31-1]");
                    H4V_ASSERT(Hendaccess(aid) == SUCCEED, "C20.K1.sw.end");
                }
                else
                    H4V_ASSERT(fr->f_end_off == before, "C20.K1.sw.failclean: refused reservation moved the end of file");
                H4V_ASSERT(fr->f_end_off >= 0, "C20.K1.sw.wrap: end-of-file offset negative");
            }
        /* library and file still usable afterwards */
        fr->f_end_off = base_end;
        H4V_ASSERT(Hputelement(f, 1001, 1, pay, 8) == 8, "C20.K1.sw.usable.put");
        {
            uint8 out[8];
            H4V_ASSERT(Hgetelement(f, 1001, 1, out) == 8 && out[3] == pay[3], "C20.K1.sw.usable.get");
        }
    }
#elif MODE == 2 /* write near position 2^31-1 of an appendable element at the end of the file: boundary table */
    aid = Hstartaccess(f, 1000, 1, DFACC_RDWR | DFACC_APPENDABLE);
    H4V_ASSERT(aid != FAIL, "C20.K1.w.start");
    H4V_ASSERT(Hwrite(aid, 4, pay) == 4, "C20.K1.w.first");
    {
        static const int32 POS[] = {0x7ffffff0, 0x7ffffffb, 0x7ffffffc, 0x7ffffffe, 0x7fffffff};
        static const int32 LEN[] = {1, 4};
        int                i, j;
        for (i = 0; i < 5; i++)
            for (j = 0; j < 2; j++) {
                int32 r, l2, off, p2;
                r = Hseek(aid, POS[i], DF_START);
                if (r != SUCCEED)
                    continue;
                r = Hwrite(aid, LEN[j], pay + 4);
                H4V_ASSERT(Hinquire(aid, NULL, NULL, NULL, &l2, &off, &p2, NULL, NULL) == SUCCEED, "C20.K1.w.inq");
                H4V_ASSERT(l2 >= 0 && off >= 0 && p2 >= 0 && (int64_t)off + l2 <= INT_MAX, "C20.K1.w.range: length/offset/position wrapped");
                if (r != FAIL)
                    H4V_ASSERT(r == LEN[j] && p2 == POS[i] + LEN[j] && l2 >= p2, "C20.K1.w.count");
                H4V_ASSERT(fr->f_end_off >= 0, "C20.K1.w.eof: end-of-file offset negative");
            }
        H4V_ASSERT(Hendaccess(aid) == SUCCEED, "C20.K1.w.end");
    }
#endif
    H4V_WITNESS();
}
