/* C04.K1 — chunk index arithmetic of hchunks.c (real file #included; the seven
 * static kernels).  The array shape (NDIMS, D0..D2) and number-type size NT are
 * enumerated by the generator and every chunk shape (1..extent per dimension,
 * including non-dividing ones) by a concrete loop here; SYMBOLIC: the byte position
 * in the element, the transfer length and the bytes already done.  Oracle:
 * row-major decomposition written independently. */
#include "hdf.h"
#include "h4v.h"
#include "hchunks.c"

H4V_IN(int32_t, sloc);
H4V_IN(int32_t, len);
H4V_IN(int32_t, done);
static const int32 DIM[3] = {D0, D1, D2};

static void one(const int32 *cl)
{
    DIM_REC dd[3];
    int32   sbi[3], spb[3], spb2[3], arr[3], crd[3], useek, cnum, cseek, csize, e, i, total = 1, tchunks = 1, want, inrow;
    for (i = 0; i < NDIMS; i++) {
        int32 odd;
        dd[i].flag = 0; dd[i].dim_length = DIM[i]; dd[i].chunk_length = cl[i]; dd[i].distrib_type = 0; dd[i].unlimited = 0;
        /* same formulas as HMCcreate / HMCIstaccess (precondition of the kernels) */
        dd[i].num_chunks = DIM[i] / cl[i];
        odd = DIM[i] % cl[i];
        if (odd) { dd[i].num_chunks++; dd[i].last_chunk_length = odd; } else dd[i].last_chunk_length = cl[i];
        total *= DIM[i]; tchunks *= dd[i].num_chunks;
    }
    H4V_ASSUME(sloc >= 0 && sloc < total * NT);
    e = sloc / NT;
    /* independent row-major coordinates of element e */
    { int32 t = e; for (i = NDIMS - 1; i >= 0; i--) { crd[i] = t % DIM[i]; t /= DIM[i]; } }
    update_chunk_indices_seek(sloc, NDIMS, NT, sbi, spb, dd);
    for (i = 0; i < NDIMS; i++) {
        H4V_ASSERT(sbi[i] >= 0 && sbi[i] < dd[i].num_chunks, "C04.K1.chunkidx.range: chunk index outside the chunk grid");
        H4V_ASSERT(spb[i] >= 0 && spb[i] < cl[i], "C04.K1.inchunk.range: position inside chunk outside the chunk");
        H4V_ASSERT(sbi[i] * cl[i] + spb[i] == crd[i], "C04.K1.coords: chunk index and position do not address the requested cell");
    }
    compute_chunk_to_array(sbi, spb, arr, NDIMS, dd);
    for (i = 0; i < NDIMS; i++) H4V_ASSERT(arr[i] == crd[i], "C04.K1.toarray: array indices differ from the cell's coordinates");
    compute_array_to_seek(&useek, arr, NT, NDIMS, dd);
    H4V_ASSERT(useek == e * NT, "C04.K1.roundtrip: seek -> chunk -> array -> seek is not the identity");
    calculate_chunk_num(&cnum, NDIMS, sbi, dd);
    want = 0; for (i = 0; i < NDIMS; i++) want = want * dd[i].num_chunks + sbi[i];
    H4V_ASSERT(cnum >= 0 && cnum < tchunks && cnum == want, "C04.K1.chunknum: chunk number is not the row-major number of the chunk");
    calculate_seek_in_chunk(&cseek, NDIMS, NT, spb, dd);
    want = 0; for (i = 0; i < NDIMS; i++) want = want * cl[i] + spb[i];
    H4V_ASSERT(cseek == want * NT, "C04.K1.seekinchunk: byte position inside the chunk is not row-major");
    { int32 cb = NT; for (i = 0; i < NDIMS; i++) cb *= cl[i]; H4V_ASSERT(cseek >= 0 && cseek < cb, "C04.K1.seekinchunk.range: position beyond the chunk"); }
    update_seek_pos_chunk(cseek, NDIMS, NT, spb2, dd);
    for (i = 0; i < NDIMS; i++) H4V_ASSERT(spb2[i] == spb[i], "C04.K1.seekpos.roundtrip: position in chunk -> seek -> position is not the identity");
    /* transfer size for this chunk: progress, never beyond the request, never across the end of the chunk row / array row */
    H4V_ASSUME(len >= 1 && len <= 64 && done >= 0 && done < len);
    calculate_chunk_for_chunk(&csize, NDIMS, NT, len, done, sbi, spb, dd);
    inrow = ((sbi[NDIMS - 1] == dd[NDIMS - 1].num_chunks - 1 ? dd[NDIMS - 1].last_chunk_length : cl[NDIMS - 1]) - spb[NDIMS - 1]) * NT;
    H4V_ASSERT(csize > 0, "C04.K1.progress: zero or negative transfer size (no progress)");
    H4V_ASSERT(csize <= len - done, "C04.K1.request: transfer larger than the rest of the request");
    H4V_ASSERT(csize <= inrow, "C04.K1.rowend: transfer crosses the end of the chunk row");
    H4V_ASSERT(crd[NDIMS - 1] * NT + csize <= DIM[NDIMS - 1] * NT, "C04.K1.arrayend: transfer crosses the end of the array row (ghost area)");
    H4V_ASSERT(csize == (len - done < inrow ? len - done : inrow), "C04.K1.exact: transfer is not min(rest of request, rest of chunk row)");
}

void harness(void)
{
    int32 cl[3];
    H4V_GET(sloc); H4V_GET(len); H4V_GET(done);
    cl[1] = 1; cl[2] = 1;
    for (cl[0] = 1; cl[0] <= D0; cl[0]++)
#if NDIMS > 1
        for (cl[1] = 1; cl[1] <= D1; cl[1]++)
#endif
#if NDIMS > 2
            for (cl[2] = 1; cl[2] <= D2; cl[2]++)
#endif
                one(cl);
    H4V_WITNESS();
}
