/* C04.S1 — chunked element vs. contiguous twin, whole real libhdf on memio.
 * A chunked element (HMCcreate, real chunk table Vdata, real mcache) and a plain
 * element receive the same concrete sequence of seeks/writes with symbolic data;
 * every read is compared pairwise and with the written data; unwritten cells of the
 * chunked element read as the fill value.  Geometry concrete (generator). */
#include "hdf.h"
#include "hfile_priv.h"
#include "hchunks_priv.h"
#include "h4v.h"
#include "memio.h"
#define TOT (D0 * D1 * NTS)
H4V_IN_ARR(uint8_t, pay, 64);
H4V_IN_ARR(uint8_t, fillv, 8);

void harness(void)
{
    DIM_DEF    dd[2];
    HCHUNK_DEF cd;
    int32      f, ca, pa;
    uint8      g[TOT], gdef[TOT], o1[TOT + 4], o2[TOT + 4];
    int        i;
    H4V_GET_ARR(pay, 64); H4V_GET_ARR(fillv, 8);
    for (i = 0; i < TOT; i++) { g[i] = fillv[i % NTS]; gdef[i] = 0; }
    f = Hopen("t.hdf", DFACC_CREATE, 16);
    H4V_ASSERT(f != FAIL && Vstart(f) == SUCCEED, "C04.S1.open");
    dd[0].dim_length = D0; dd[0].chunk_length = C0; dd[0].distrib_type = 1;
    dd[1].dim_length = D1; dd[1].chunk_length = C1; dd[1].distrib_type = 1;
    memset(&cd, 0, sizeof cd);
    cd.chunk_size = C0 * C1; cd.nt_size = NTS; cd.num_dims = 2; cd.pdims = dd; cd.chunk_flag = 0;
    ca = HMCcreate(f, 1000, 1, 1, NTS, fillv, &cd);
    H4V_ASSERT(ca != FAIL, "C04.S1.hmccreate");
#ifdef MAXCACHE
    H4V_ASSERT(HMCsetMaxcache(ca, MAXCACHE, 0) != FAIL, "C04.S1.maxcache");
#endif
    pa = Hstartaccess(f, 1001, 1, DFACC_RDWR | DFACC_APPENDABLE);
    H4V_ASSERT(pa != FAIL, "C04.S1.twin");
    /* twin: pre-fill with the fill value so that both hold the same logical array */
    H4V_ASSERT(Hwrite(pa, TOT, g) == TOT, "C04.S1.twin.fill");
    /* write 1 */
    H4V_ASSERT(Hseek(ca, W1P, DF_START) == SUCCEED && Hseek(pa, W1P, DF_START) == SUCCEED, "C04.S1.seek1");
    H4V_ASSERT(Hwrite(ca, W1N, pay) == W1N, "C04.S1.write1: chunked write transfer count");
    H4V_ASSERT(Hwrite(pa, W1N, pay) == W1N, "C04.S1.write1.twin");
    for (i = 0; i < W1N; i++) { g[W1P + i] = pay[i]; gdef[W1P + i] = 1; }
#if W2N > 0
    H4V_ASSERT(Hseek(ca, W2P, DF_START) == SUCCEED && Hseek(pa, W2P, DF_START) == SUCCEED, "C04.S1.seek2");
    H4V_ASSERT(Hwrite(ca, W2N, pay + 32) == W2N, "C04.S1.write2: chunked write transfer count");
    H4V_ASSERT(Hwrite(pa, W2N, pay + 32) == W2N, "C04.S1.write2.twin");
    for (i = 0; i < W2N; i++) { g[W2P + i] = pay[32 + i]; gdef[W2P + i] = 1; }
#endif
#if REOPEN
    H4V_ASSERT(Hendaccess(ca) == SUCCEED && Hendaccess(pa) == SUCCEED, "C04.S1.endaccess");
    H4V_ASSERT(Vend(f) == SUCCEED && Hclose(f) == SUCCEED, "C04.S1.close");
    f = Hopen("t.hdf", DFACC_READ, 0);
    H4V_ASSERT(f != FAIL && Vstart(f) == SUCCEED, "C04.S1.reopen");
    ca = Hstartread(f, 1000, 1); pa = Hstartread(f, 1001, 1);
    H4V_ASSERT(ca != FAIL && pa != FAIL, "C04.S1.startread");
#endif
    for (i = 0; i < TOT + 4; i++) { o1[i] = 0x5E; o2[i] = 0x5E; }
    H4V_ASSERT(Hseek(ca, R1P, DF_START) == SUCCEED && Hseek(pa, R1P, DF_START) == SUCCEED, "C04.S1.seekr");
    H4V_ASSERT(Hread(ca, R1N, o1) == R1N, "C04.S1.read: chunked read transfer count");
    H4V_ASSERT(Hread(pa, R1N, o2) == R1N, "C04.S1.read.twin");
    for (i = 0; i < R1N; i++) {
        H4V_ASSERT(o1[i] == o2[i], "C04.S1.layout: chunked element returns different data than its contiguous twin");
        H4V_ASSERT(o1[i] == g[R1P + i], "C04.S1.value: chunked element returns a value other than the last written one (or the fill value)");
    }
    for (i = R1N; i < TOT + 4; i++) H4V_ASSERT(o1[i] == 0x5E, "C04.S1.overrun: chunked read wrote beyond the request");
    H4V_ASSERT(Hendaccess(ca) == SUCCEED && Hendaccess(pa) == SUCCEED, "C04.S1.endaccess2");
    H4V_ASSERT(Vend(f) == SUCCEED && Hclose(f) == SUCCEED, "C04.S1.close2");
    (void)gdef;
    H4V_WITNESS();
}
