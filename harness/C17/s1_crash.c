/* C17.S1 — a crash while adding objects never damages what was already in the file.
 * Whole real libhdf on memio (with a data-carrying write log).
 * Phase A builds a file and closes it (P = its objects; base = its bytes).
 * Phase B is an append-only session (WL selects it).  (1) Every write issued before
 * the flush (Hsync/Hclose entered) must lie at or beyond the old end of file.
 * (2) For every prefix c of the ordered writes of the session (crash after c writes,
 * each library-level write atomic) the file base+prefix is materialised as "c.hdf",
 * must open, and every object of P must read back unchanged.  Payload symbolic. */
#include "hdf.h"
#include "h4v.h"
#include "memio.h"
#ifndef TAILDD
#define TAILDD 0
#endif
H4V_IN_ARR(uint8_t, pay, 40);
static unsigned char base[MEMIO_DISK_SZ];
static long          base_size;

static void materialise(long c)
{
    long i, k;
    for (i = 0; i < base_size; i++) memio_files[1].data[i] = base[i];
    memio_files[1].size = base_size;
    for (k = 0; k < c; k++) {
        long off = memio_log[k].off, len = memio_log[k].len, d = memio_log[k].doff;
        if (memio_log[k].file != 0) continue;
        for (i = memio_files[1].size; i < off; i++) memio_files[1].data[i] = 0;
        for (i = 0; i < len; i++) memio_files[1].data[off + i] = memio_logdata[d + i];
        if (off + len > memio_files[1].size) memio_files[1].size = off + len;
    }
    memio_files[1].exists = 1; memio_files[1].nopen = 0;
    memio_files[1].name[0] = 'c'; memio_files[1].name[1] = '.'; memio_files[1].name[2] = 'h'; memio_files[1].name[3] = 0;
}

/* end of the last stored object or descriptor block, computed from the bytes by an
 * independent walk of the on-disk DD chain (HDF4 format: magic, then blocks of
 * ndds(2) next(4) followed by ndds x {tag(2) ref(2) offset(4) length(4)}) */
static long be(const unsigned char *p, int n) { long v = 0; int i; for (i = 0; i < n; i++) v = (v << 8) | p[i]; return v; }
static long logical_end(void)
{
    long blk = 4, end = 4, guard = 0;
    while (blk != 0 && guard++ < 8) {
        long ndds = be(base + blk, 2), next = be(base + blk + 2, 4), i;
        long bend = blk + 6 + ndds * 12;
        if (bend > end) end = bend;
        for (i = 0; i < ndds && i < 32; i++) {
            const unsigned char *d = base + blk + 6 + i * 12;
            long tag = be(d, 2), off = be(d + 4, 4), len = be(d + 8, 4);
            if (tag != DFTAG_NULL && tag != DFTAG_FREE && off != 0xffffffffL && len != 0xffffffffL && off + len > end) end = off + len;
        }
        blk = next;
    }
    return end;
}

static void check_P(const char *path)
{
    uint8 out[16];
    int   i;
    int32 f = Hopen(path, DFACC_READ, 0), vs, r;
    H4V_ASSERT(f != FAIL, "C17.S1.opens: file does not open after a crash during an append-only session");
    if (f == FAIL) return;
    H4V_ASSERT(Hgetelement(f, 1000, 1, out) == 6, "C17.S1.P.len0: pre-existing element lost or resized");
    for (i = 0; i < 6; i++) H4V_ASSERT(out[i] == pay[i], "C17.S1.P.data0: pre-existing element changed");
    H4V_ASSERT(Hgetelement(f, 1000, 2, out) == 3, "C17.S1.P.len1");
    for (i = 0; i < 3; i++) H4V_ASSERT(out[i] == pay[6 + i], "C17.S1.P.data1: pre-existing element changed");
#if TAILDD
    H4V_ASSERT(Hgetelement(f, 1002, 1, out) == 6, "C17.S1.P.lendup: pre-existing alias descriptor lost");
    for (i = 0; i < 6; i++) H4V_ASSERT(out[i] == pay[i], "C17.S1.P.datadup: pre-existing alias changed");
#endif
#if WITHV
    H4V_ASSERT(Vstart(f) == SUCCEED, "C17.S1.P.vstart");
    r = VSfind(f, "old");
    H4V_ASSERT(r > 0, "C17.S1.P.vsfind: pre-existing vdata lost");
    vs = VSattach(f, r, "r");
    H4V_ASSERT(vs != FAIL, "C17.S1.P.vsattach");
    H4V_ASSERT(VSelts(vs) == 2, "C17.S1.P.vselts");
    H4V_ASSERT(VSsetfields(vs, "A") == SUCCEED && VSread(vs, out, 2, FULL_INTERLACE) == 2, "C17.S1.P.vsread");
    for (i = 0; i < 4; i++) H4V_ASSERT(out[i] == pay[9 + i], "C17.S1.P.vsdata: pre-existing vdata record changed");
    H4V_ASSERT(VSdetach(vs) == SUCCEED, "C17.S1.P.vsdetach");
    H4V_ASSERT(Vfind(f, "oldg") > 0, "C17.S1.P.vfind: pre-existing vgroup lost");
    H4V_ASSERT(Vend(f) == SUCCEED, "C17.S1.P.vend");
#endif
    H4V_ASSERT(Hclose(f) == SUCCEED, "C17.S1.P.close");
    (void)vs; (void)r;
}

void harness(void)
{
    int32 f, vs, vg;
    long  i, flush_mark, nw, c;
    H4V_GET_ARR(pay, 40);
    /* ---- phase A ---- */
    f = Hopen("t.hdf", DFACC_CREATE, NDDS);
    H4V_ASSERT(f != FAIL, "C17.S1.A.open");
    H4V_ASSERT(Hputelement(f, 1000, 1, pay, 6) == 6 && Hputelement(f, 1000, 2, pay + 6, 3) == 3, "C17.S1.A.put");
#if FULLBLK /* a third element: with ndds=4 the only descriptor block is then exactly full */
    H4V_ASSERT(Hputelement(f, 1000, 3, pay + 33, 2) == 2, "C17.S1.A.put3");
#endif
#if TAILDD /* one more descriptor without data of its own: the new descriptor block it needs is the last thing in the file */
    H4V_ASSERT(Hdupdd(f, 1002, 1, 1000, 1) == SUCCEED, "C17.S1.A.dup");
#endif
#if WITHV
    H4V_ASSERT(Vstart(f) == SUCCEED, "C17.S1.A.vstart");
    vs = VSattach(f, -1, "w");
    H4V_ASSERT(vs != FAIL && VSfdefine(vs, "A", DFNT_UINT8, 2) == SUCCEED && VSsetfields(vs, "A") == SUCCEED && VSsetname(vs, "old") == SUCCEED, "C17.S1.A.vs");
    H4V_ASSERT(VSwrite(vs, pay + 9, 2, FULL_INTERLACE) == 2 && VSdetach(vs) == SUCCEED, "C17.S1.A.vswrite");
    vg = Vattach(f, -1, "w");
    H4V_ASSERT(vg != FAIL && Vsetname(vg, "oldg") == SUCCEED && Vaddtagref(vg, 1000, 1) != FAIL && Vdetach(vg) == SUCCEED, "C17.S1.A.vg");
    H4V_ASSERT(Vend(f) == SUCCEED, "C17.S1.A.vend");
#endif
    H4V_ASSERT(Hclose(f) == SUCCEED, "C17.S1.A.close");
    base_size = memio_files[0].size;
    for (i = 0; i < base_size; i++) base[i] = memio_files[0].data[i];
    check_P("t.hdf");
    /* ---- phase B: append-only session ---- */
    memio_nlog = 0;
#if MEMIO_LOGDATA > 0
    memio_logdata_used = 0;
#endif
    memio_guard_below = logical_end(); memio_guard_on = 1; memio_guard_violated = 0;
    H4V_ASSERT(memio_guard_below <= base_size && memio_guard_below >= base_size - 1, "C17.S1.A.end: old file longer than its last object/descriptor block (+1 pad byte)");
    f = Hopen("t.hdf", DFACC_RDWR, 0);
    H4V_ASSERT(f != FAIL, "C17.S1.B.open");
#if WL == 0 /* new low-level elements, enough to need new descriptor blocks */
    H4V_ASSERT(Hputelement(f, 1001, 1, pay + 13, 4) == 4, "C17.S1.B.put1");
    H4V_ASSERT(Hputelement(f, 1001, 2, pay + 17, 4) == 4, "C17.S1.B.put2");
    H4V_ASSERT(Hputelement(f, 1001, 3, pay + 21, 4) == 4, "C17.S1.B.put3");
    H4V_ASSERT(Hputelement(f, 1001, 4, pay + 25, 4) == 4, "C17.S1.B.put4");
    H4V_ASSERT(Hputelement(f, 1001, 5, pay + 29, 4) == 4, "C17.S1.B.put5");
#elif WL == 1 /* new vdata and vgroup */
    H4V_ASSERT(Vstart(f) == SUCCEED, "C17.S1.B.vstart");
    vs = VSattach(f, -1, "w");
    H4V_ASSERT(vs != FAIL && VSfdefine(vs, "N", DFNT_INT16, 1) == SUCCEED && VSsetfields(vs, "N") == SUCCEED && VSsetname(vs, "new") == SUCCEED, "C17.S1.B.vs");
    H4V_ASSERT(VSwrite(vs, pay + 13, 3, FULL_INTERLACE) == 3, "C17.S1.B.vswrite");
    vg = Vattach(f, -1, "w");
    H4V_ASSERT(vg != FAIL && Vsetname(vg, "newg") == SUCCEED && Vinsert(vg, vs) != FAIL, "C17.S1.B.vg");
    H4V_ASSERT(Vdetach(vg) == SUCCEED && VSdetach(vs) == SUCCEED, "C17.S1.B.detach");
    H4V_ASSERT(Vend(f) == SUCCEED, "C17.S1.B.vend");
#endif
    H4V_ASSERT(!memio_guard_violated, "C17.S1.preflush: a write below the old end of file was issued before the flush");
    flush_mark = memio_nlog;
    memio_guard_on = 0;
    H4V_ASSERT(Hclose(f) == SUCCEED, "C17.S1.B.close");
    nw = memio_nlog;
    H4V_ASSERT(nw < MEMIO_LOGN, "H4V-MODEL: write log too small");
    /* ---- every crash point: prefix of c writes ---- */
    for (c = CMIN; c <= nw && c <= CMAX; c++) {
        materialise(c);
        check_P("c.h");
    }
    (void)flush_mark; (void)vs; (void)vg;
    H4V_WITNESS();
}
