/* C18.K3 — hrepack's per-object layout decision (real hrepack_utils.c options_get_info
 * + hrepack_opttable.c options_get_object).  Symbolic: global/per-object settings
 * (which of -c/-t apply to all objects, chunk rank incl. the NONE marker -2, chunk
 * lengths, compression type and parameter), the object's rank, the layout found in
 * the input file (initial output values).  MATCH selects whether the object is named in
 * the option table.  Oracle: the documented rules — an explicit NONE is always
 * honoured, a requested chunk shape / coder / parameter is what comes out. */
#include "hdf.h"
#include "mfhdf.h"
#include "h4v.h"
#include "hrepack.h"
#include "hrepack_utils.h"
#include "hrepack_opttable.h"
H4V_IN(uint8_t, all_chunk);
H4V_IN(uint8_t, all_comp);
H4V_IN(int8_t, g_rank);
H4V_IN(int8_t, o_rank);
H4V_IN_ARR(int32_t, g_len, 2);
H4V_IN_ARR(int32_t, o_len, 2);
H4V_IN(int8_t, g_ctype);
H4V_IN(int8_t, o_ctype);
H4V_IN(uint8_t, g_info);
H4V_IN(uint8_t, o_info);
H4V_IN(uint8_t, rank);
H4V_IN(int32_t, in_flags);
H4V_IN(int8_t, in_ctype);

static int legal_ctype(int t) { return t == COMP_CODE_NONE || t == COMP_CODE_RLE || t == COMP_CODE_SKPHUFF || t == COMP_CODE_DEFLATE; }

void harness(void)
{
    options_t       opt;
    options_table_t tbl;
    pack_info_t     obj;
    HDF_CHUNK_DEF   cdef;
    int32           flags, dims[2] = {4, 4};
    int             info = 0, szm = 0, r, i;
    comp_coder_t    ctype;
    char            path[8] = "ds";
    H4V_GET(all_chunk); H4V_GET(all_comp); H4V_GET(g_rank); H4V_GET(o_rank); H4V_GET_ARR(g_len, 2); H4V_GET_ARR(o_len, 2);
    H4V_GET(g_ctype); H4V_GET(o_ctype); H4V_GET(g_info); H4V_GET(o_info); H4V_GET(rank); H4V_GET(in_flags); H4V_GET(in_ctype);
    H4V_ASSUME(all_chunk <= 1 && all_comp <= 1 && rank >= 1 && rank <= 2);
    H4V_ASSUME(g_rank == -2 || g_rank == 0 || g_rank == 1 || g_rank == 2);
    H4V_ASSUME(o_rank == -2 || o_rank == 0 || o_rank == 1 || o_rank == 2);
    H4V_ASSUME(legal_ctype(g_ctype) && (legal_ctype(o_ctype) || o_ctype == -1));
    H4V_ASSUME(in_flags == HDF_NONE || in_flags == HDF_CHUNK || in_flags == (HDF_CHUNK | HDF_COMP));
    H4V_ASSUME(legal_ctype(in_ctype));
    memset(&opt, 0, sizeof opt); memset(&tbl, 0, sizeof tbl); memset(&obj, 0, sizeof obj); memset(&cdef, 0, sizeof cdef);
    strcpy(obj.objpath, MATCH ? "ds" : "other");
    obj.chunk.rank = o_rank; obj.chunk.chunk_lengths[0] = o_len[0]; obj.chunk.chunk_lengths[1] = o_len[1];
    obj.comp.type = (comp_coder_t)o_ctype; obj.comp.info = o_info; obj.comp.szip_mode = 0;
    tbl.size = 1; tbl.nelems = 1; tbl.objs = &obj;
    opt.op_tbl = &tbl; opt.all_chunk = all_chunk; opt.all_comp = all_comp;
    opt.chunk_g.rank = g_rank; opt.chunk_g.chunk_lengths[0] = g_len[0]; opt.chunk_g.chunk_lengths[1] = g_len[1];
    opt.comp_g.type = (comp_coder_t)g_ctype; opt.comp_g.info = g_info;
    flags = in_flags; ctype = (comp_coder_t)in_ctype;
    r = options_get_info(&opt, &flags, &cdef, &info, &szm, &ctype, rank, path, 1, dims, DFNT_INT32);
    if (r != FAIL) {
        int want_none_chunk = all_chunk ? (g_rank == -2) : (MATCH && o_rank == -2);
        int want_chunk      = all_chunk ? (g_rank == (int)rank) : (MATCH && o_rank == (int)rank);
        if (want_none_chunk)
            H4V_ASSERT(flags == HDF_NONE, "C18.K3.unchunk: an explicit NONE chunking request is not honoured");
        if (want_chunk) {
            H4V_ASSERT((flags & HDF_CHUNK) == HDF_CHUNK, "C18.K3.chunk: a chunking request of matching rank is not applied");
            for (i = 0; i < (int)rank; i++)
                H4V_ASSERT(cdef.chunk_lengths[i] == (all_chunk ? g_len[i] : o_len[i]), "C18.K3.chunklen: chunk lengths differ from the requested ones");
        }
        /* chunking applied by this request AND a coder requested for the object: the chunk definition handed
         * to the library carries the coder and its parameter */
        if (want_chunk) {
            int want_t = all_comp ? g_ctype : ((MATCH && o_ctype >= 0) ? o_ctype : -1), want_i = all_comp ? g_info : o_info;
            if (want_t > 0) {
                H4V_ASSERT(flags == (HDF_CHUNK | HDF_COMP), "C18.K3.chunkcomp: chunking and compression both requested but not both applied");
                H4V_ASSERT(cdef.comp.comp_type == (comp_coder_t)want_t, "C18.K3.chunkdef.type: coder in the chunk definition differs from the requested one");
                if (want_t == COMP_CODE_DEFLATE)
                    H4V_ASSERT(cdef.comp.cinfo.deflate.level == want_i, "C18.K3.chunkdef.level: deflate level in the chunk definition differs from the requested one");
                if (want_t == COMP_CODE_SKPHUFF)
                    H4V_ASSERT(cdef.comp.cinfo.skphuff.skp_size == want_i, "C18.K3.chunkdef.skip: skipping size in the chunk definition differs from the requested one");
            }
        }
        if (all_comp) {
            H4V_ASSERT(ctype == (comp_coder_t)g_ctype && info == g_info, "C18.K3.comp.global: global compression request not applied as given");
        }
        else if (MATCH && o_ctype >= 0) {
            H4V_ASSERT(ctype == (comp_coder_t)o_ctype && info == o_info, "C18.K3.comp.object: per-object compression request not applied as given");
        }
        else if (!MATCH)
            H4V_ASSERT(ctype == (comp_coder_t)in_ctype, "C18.K3.comp.keep: compression of an object without a request was changed");
    }
    H4V_WITNESS();
}
