/* C07.S1 — Vdata table scenario, whole real libhdf on memio.
 * The schema (H4V_FIELDS), record counts, seek positions, interlaces and the
 * read field list are concrete (generator); every stored byte is symbolic.
 *
 * Program: create file; define vdata; write N1 records (write interlace WIL);
 * [optionally another element is written after it so that growth is not at the end
 * of the file]; seek to SK and write N2 records (overwrite and/or append);
 * detach; Vend; close; reopen (ROPEN mode); attach; inquire; setfields(READ list);
 * seek RS; read RN records with interlace RIL; compare with the ghost table. */
#include "hdf.h"
#include "h4v.h"
#include "memio.h"

typedef struct {
    const char *name;
    int32       type;
    int         order;
    int         size; /* bytes = sizeof(type) * order */
} fld_t;
static const fld_t F[] = {H4V_FIELDS};
#define NF ((int)(sizeof(F) / sizeof(F[0])))
static const int RD[] = {H4V_READ}; /* indices into F, in read order */
#define NRD ((int)(sizeof(RD) / sizeof(RD[0])))
#ifndef MAXREC
#define MAXREC 6
#endif
#ifndef RECMAX
#define RECMAX 24
#endif
H4V_IN_ARR(uint8_t, pay, 2 * MAXREC * RECMAX);

static uint8 G[MAXREC][RECMAX]; /* ghost table, packed records */
static int   gn = 0;

static int recsize(void) { int i, s = 0; for (i = 0; i < NF; i++) s += F[i].size; return s; }
static int foff(int f) { int i, s = 0; for (i = 0; i < f; i++) s += F[i].size; return s; }

/* lay out n records taken from packed source rows into buf with the given interlace */
static void layout(uint8 *buf, const uint8 *rows, int n, int il, const int *fl, int nfl, int fullrec)
{
    int r, k, b, o = 0;
    if (il == FULL_INTERLACE) {
        for (r = 0; r < n; r++)
            for (k = 0; k < nfl; k++)
                for (b = 0; b < F[fl[k]].size; b++) buf[o++] = rows[r * fullrec + foff(fl[k]) + b];
    }
    else {
        for (k = 0; k < nfl; k++)
            for (r = 0; r < n; r++)
                for (b = 0; b < F[fl[k]].size; b++) buf[o++] = rows[r * fullrec + foff(fl[k]) + b];
    }
}

void harness(void)
{
    int32 f, vs, ref;
    int   i, r, rs = recsize();
    int   allf[8];
    char  flist[64];
    uint8 wbuf[MAXREC * RECMAX], rbuf[MAXREC * RECMAX], want[MAXREC * RECMAX];
    H4V_GET_ARR(pay, 2 * MAXREC * RECMAX);
    for (i = 0; i < NF; i++) allf[i] = i;
    flist[0] = 0;
    for (i = 0; i < NF; i++) { if (i) strcat(flist, ","); strcat(flist, F[i].name); }

    f = Hopen("t.hdf", DFACC_CREATE, 16);
    H4V_ASSERT(f != FAIL, "C07.S1.open");
    H4V_ASSERT(Vstart(f) == SUCCEED, "C07.S1.vstart");
    vs = VSattach(f, -1, "w");
    H4V_ASSERT(vs != FAIL, "C07.S1.attach");
    for (i = 0; i < NF; i++) H4V_ASSERT(VSfdefine(vs, F[i].name, F[i].type, F[i].order) == SUCCEED, "C07.S1.fdefine");
    H4V_ASSERT(VSsetname(vs, "tbl") == SUCCEED, "C07.S1.setname");
    H4V_ASSERT(VSsetclass(vs, "cls") == SUCCEED, "C07.S1.setclass");
    H4V_ASSERT(VSsetfields(vs, flist) == SUCCEED, "C07.S1.setfields");
#ifdef BLOCKSIZE
    H4V_ASSERT(VSsetblocksize(vs, BLOCKSIZE) == SUCCEED, "C07.S1.setblocksize");
    H4V_ASSERT(VSsetnumblocks(vs, NUMBLOCKS) == SUCCEED, "C07.S1.setnumblocks");
#endif
    H4V_ASSERT(VSsetinterlace(vs, SIL) == SUCCEED, "C07.S1.setinterlace");
    /* first write: N1 records */
    for (r = 0; r < N1; r++) for (i = 0; i < rs; i++) G[r][i] = pay[r * RECMAX + i];
    gn = N1;
    layout(wbuf, &G[0][0], N1, WIL, allf, NF, RECMAX);
    H4V_ASSERT(VSwrite(vs, wbuf, N1, WIL) == N1, "C07.S1.write1: VSwrite did not report the records written");
    H4V_ASSERT(VSelts(vs) == N1, "C07.S1.elts1: record count after first write");
    ref = VSQueryref(vs);
#ifdef REATTACH
    H4V_ASSERT(VSdetach(vs) == SUCCEED, "C07.S1.detach0");
#ifdef BLOCKER
    H4V_ASSERT(Hputelement(f, 900, 1, pay, 5) == 5, "C07.S1.blocker");
#endif
    vs = VSattach(f, ref, "w");
    H4V_ASSERT(vs != FAIL, "C07.S1.reattach");
    H4V_ASSERT(VSsetfields(vs, flist) == SUCCEED, "C07.S1.setfields2");
#endif
#if N2 > 0
    {
        uint8 rows[MAXREC][RECMAX];
        for (r = 0; r < N2; r++) for (i = 0; i < rs; i++) rows[r][i] = pay[(MAXREC + r) * RECMAX + i];
        H4V_ASSERT(VSseek(vs, SK) == SK, "C07.S1.seek");
        layout(wbuf, &rows[0][0], N2, WIL, allf, NF, RECMAX);
        H4V_ASSERT(VSwrite(vs, wbuf, N2, WIL) == N2, "C07.S1.write2: VSwrite did not report the records written");
        for (r = 0; r < N2; r++) for (i = 0; i < rs; i++) G[SK + r][i] = rows[r][i];
        if (SK + N2 > gn) gn = SK + N2;
        H4V_ASSERT(VSelts(vs) == gn, "C07.S1.elts2: record count after overwrite/append");
    }
#endif
    H4V_ASSERT(VSdetach(vs) == SUCCEED, "C07.S1.detach");
    H4V_ASSERT(Vend(f) == SUCCEED, "C07.S1.vend");
    H4V_ASSERT(Hclose(f) == SUCCEED, "C07.S1.close");

    f = Hopen("t.hdf", ROPEN, 0);
    H4V_ASSERT(f != FAIL, "C07.S1.reopen");
    H4V_ASSERT(Vstart(f) == SUCCEED, "C07.S1.vstart2");
    H4V_ASSERT(VSfind(f, "tbl") == ref, "C07.S1.find: VSfind does not return the vdata's reference");
    vs = VSattach(f, ref, "r");
    H4V_ASSERT(vs != FAIL, "C07.S1.attach2");
    {
        int32 n, il, sz;
        char  fl2[128], nm[VSNAMELENMAX + 1];
        H4V_ASSERT(VSinquire(vs, &n, &il, fl2, &sz, nm) == SUCCEED, "C07.S1.inquire");
        H4V_ASSERT(n == gn, "C07.S1.inq.count: record count differs after reopen");
        H4V_ASSERT(il == SIL, "C07.S1.inq.interlace: stored interlace differs");
        H4V_ASSERT(strcmp(fl2, flist) == 0, "C07.S1.inq.fields: field list differs");
        H4V_ASSERT(strcmp(nm, "tbl") == 0, "C07.S1.inq.name: name differs");
        H4V_ASSERT(VFnfields(vs) == NF, "C07.S1.nfields");
        for (i = 0; i < NF; i++) {
            H4V_ASSERT(VFfieldtype(vs, i) == F[i].type, "C07.S1.fieldtype");
            H4V_ASSERT(VFfieldorder(vs, i) == F[i].order, "C07.S1.fieldorder");
            H4V_ASSERT(VFfieldisize(vs, i) == F[i].size, "C07.S1.fieldisize");
            H4V_ASSERT(strcmp(VFfieldname(vs, i), F[i].name) == 0, "C07.S1.fieldname");
        }
        H4V_ASSERT(VSsizeof(vs, flist) == rs, "C07.S1.sizeof: record size differs from the sum of the field sizes");
    }
    {
        char rl[64];
        int  k, tot = 0;
        rl[0] = 0;
        for (k = 0; k < NRD; k++) { if (k) strcat(rl, ","); strcat(rl, F[RD[k]].name); tot += F[RD[k]].size; }
        H4V_ASSERT(VSsetfields(vs, rl) == SUCCEED, "C07.S1.setfields.read");
        H4V_ASSERT(VSseek(vs, RS) == RS, "C07.S1.seek.read");
        for (i = 0; i < MAXREC * RECMAX; i++) rbuf[i] = 0x5A;
        H4V_ASSERT(VSread(vs, rbuf, RN, RIL) == RN, "C07.S1.read: VSread did not report the records read");
        layout(want, &G[RS][0], RN, RIL, RD, NRD, RECMAX);
        for (i = 0; i < RN * tot; i++) H4V_ASSERT(rbuf[i] == want[i], "C07.S1.values: field value read differs from the value stored");
        for (i = RN * tot; i < MAXREC * RECMAX; i++) H4V_ASSERT(rbuf[i] == 0x5A, "C07.S1.overrun: VSread wrote beyond the requested records");
    }
    H4V_ASSERT(VSdetach(vs) == SUCCEED, "C07.S1.detach2");
    H4V_ASSERT(Vend(f) == SUCCEED, "C07.S1.vend2");
    H4V_ASSERT(Hclose(f) == SUCCEED, "C07.S1.close2");
    H4V_WITNESS();
}
