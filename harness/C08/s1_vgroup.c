/* C08.S1 — Vgroup membership/naming/hierarchy scenario interpreter, whole real
 * libhdf on memio.  The edit history (H4V_PROG) and the name/class texts are
 * concrete; the reference numbers of tag/ref members that are only stored, listed and
 * persisted are symbolic (members that are later deleted have concrete refs, because
 * the packed size - hence every later file offset - depends on which one matches).  A reference graph
 * is kept alongside. */
#include "hdf.h"
#include "h4v.h"
#include "memio.h"

enum { V_CREATE = 0, /* g */
       V_SETNAME,    /* g x=len */
       V_SETCLASS,   /* g x=len */
       V_ADDTAGREF,  /* g x=tag y=ref */
       V_INSERTVG,   /* g x=child g */
       V_INSERTVS,   /* g x=vdata index */
       V_DELTAGREF,  /* g x=tag y=ref */
       V_DELTAGREF_VG, /* g x=child g */
       V_DELETE,     /* g : Vdelete */
       V_VSCREATE,   /* x=vdata index */
       V_VSDELETE,   /* x=vdata index */
       V_DETACH,     /* g */
       V_ATTACH,     /* g */
       V_ATTACH2,    /* g : attach again while still attached (second handle), then release the second handle */
       V_REOPEN,     /* x=access */
       V_CHECK,      /* full comparison */
       V_END };
typedef struct { int op, g, x, y; } op_t;
static const op_t PROG[] = {H4V_PROG, {V_END, 0, 0, 0}};

#define NG 3
#define NS 2
#define MAXM 6
#define NAMEMAX 72
H4V_IN_ARR(uint16_t, srefs, 16); /* symbolic member reference numbers */
static int npool = 0, nsref = 0;

static struct {
    int   exists, attached;
    int32 key, ref;
    int   nm, namelen, classlen;
    char  name[NAMEMAX + 1], cls[NAMEMAX + 1];
    int32 mtag[MAXM], mref[MAXM];
} G[NG];
static struct { int exists; int32 ref; } S[NS];
static int32 fid;

static void take(char *dst, int len)
{
    int i;
    /* concrete text (lengths drive allocation sizes and file offsets; see DESIGN.md section 0) */
    for (i = 0; i < len; i++)
        dst[i] = (char)('a' + (npool * 7 + i) % 26);
    dst[len] = 0;
    npool++;
}

static int is_member_somewhere(int32 tag, int32 ref)
{
    int g, m;
    for (g = 0; g < NG; g++)
        if (G[g].exists)
            for (m = 0; m < G[g].nm; m++)
                if (G[g].mtag[m] == tag && G[g].mref[m] == ref) return 1;
    return 0;
}

static void check_group(int g)
{
    int32 tags[MAXM + 2], refs[MAXM + 2], n, i;
    char  buf[NAMEMAX + 8];
    uint16 l;
    H4V_ASSERT(Vntagrefs(G[g].key) == G[g].nm, "C08.S1.count: member count differs from the reference graph");
    n = Vgettagrefs(G[g].key, tags, refs, MAXM + 2);
    H4V_ASSERT(n == G[g].nm, "C08.S1.gettagrefs.count");
    for (i = 0; i < G[g].nm && i < n; i++)
        H4V_ASSERT(tags[i] == G[g].mtag[i] && refs[i] == G[g].mref[i], "C08.S1.members: ordered member list differs from the reference graph");
    H4V_ASSERT(Vgetnamelen(G[g].key, &l) == SUCCEED && l == G[g].namelen, "C08.S1.namelen");
    H4V_ASSERT(Vgetname(G[g].key, buf) == SUCCEED, "C08.S1.getname");
    for (i = 0; i <= G[g].namelen; i++) H4V_ASSERT(buf[i] == G[g].name[i], "C08.S1.name: name differs from the name set");
    H4V_ASSERT(Vgetclassnamelen(G[g].key, &l) == SUCCEED && l == G[g].classlen, "C08.S1.classlen");
    H4V_ASSERT(Vgetclass(G[g].key, buf) == SUCCEED, "C08.S1.getclass");
    for (i = 0; i <= G[g].classlen; i++) H4V_ASSERT(buf[i] == G[g].cls[i], "C08.S1.class: class differs from the class set");
    for (i = 0; i < G[g].nm; i++)
        H4V_ASSERT(Vinqtagref(G[g].key, G[g].mtag[i], G[g].mref[i]) == TRUE, "C08.S1.inqtagref: member not found by tag/ref");
    H4V_ASSERT(Vinqtagref(G[g].key, 777, 777) == FALSE, "C08.S1.inqtagref.absent: non-member reported as member");
}

static void check_file(void)
{
    int32 id, lone[8], n, i;
    int   g, s, want = 0, seen[NG];
    /* iteration over all vgroups */
    for (g = 0; g < NG; g++) { seen[g] = 0; if (G[g].exists) want++; }
    id = -1; n = 0;
    while ((id = Vgetid(fid, id)) != FAIL && n < 8) {
        int hit = 0;
        for (g = 0; g < NG; g++) if (G[g].exists && G[g].ref == id) { H4V_ASSERT(!seen[g], "C08.S1.iter.twice"); seen[g] = 1; hit = 1; }
        H4V_ASSERT(hit, "C08.S1.iter.ghost: iteration visits a vgroup that does not exist");
        n++;
    }
    H4V_ASSERT(n == want, "C08.S1.iter.count: iteration does not visit exactly the existing vgroups");
    /* Vlone/VSlone scan a 65535-entry table per call: outside what symbolic execution
     * of the whole library finishes; not part of this harness (see checks/C08.py). */
    (void)lone; (void)s; (void)i;
    /* lookup by name (only when the name is unique by construction: distinct lengths) */
    for (g = 0; g < NG; g++)
        if (G[g].exists && G[g].namelen > 0) {
            int uniq = 1, h;
            for (h = 0; h < NG; h++) if (h != g && G[h].exists && G[h].namelen == G[g].namelen) uniq = 0;
            if (uniq) H4V_ASSERT(Vfind(fid, G[g].name) == G[g].ref, "C08.S1.vfind: lookup by name does not return the vgroup");
        }
    for (g = 0; g < NG; g++) if (G[g].exists && G[g].attached) check_group(g);
}

void harness(void)
{
    int pc, i;
    H4V_GET_ARR(srefs, 16);
    for (i = 0; i < 16; i++) H4V_ASSUME(srefs[i] >= 1);
    fid = Hopen("t.hdf", DFACC_CREATE, 16);
    H4V_ASSERT(fid != FAIL, "C08.S1.open");
    H4V_ASSERT(Vstart(fid) == SUCCEED, "C08.S1.vstart");
    for (pc = 0; PROG[pc].op != V_END; pc++) {
        const op_t *o = &PROG[pc];
        int         g = o->g;
        switch (o->op) {
            case V_CREATE:
                G[g].key = Vattach(fid, -1, "w");
                H4V_ASSERT(G[g].key != FAIL, "C08.S1.create");
                G[g].exists = 1; G[g].attached = 1; G[g].nm = 0; G[g].namelen = 0; G[g].classlen = 0; G[g].name[0] = 0; G[g].cls[0] = 0;
                G[g].ref = VQueryref(G[g].key);
                H4V_ASSERT(G[g].ref > 0, "C08.S1.ref");
                for (i = 0; i < NG; i++) if (i != g && G[i].exists) H4V_ASSERT(G[i].ref != G[g].ref, "C08.S1.ref.unique: new vgroup got a reference in use");
                break;
            case V_SETNAME:
                take(G[g].name, o->x); G[g].namelen = o->x;
                H4V_ASSERT(Vsetname(G[g].key, G[g].name) == SUCCEED, "C08.S1.setname");
                break;
            case V_SETCLASS:
                take(G[g].cls, o->x); G[g].classlen = o->x;
                H4V_ASSERT(Vsetclass(G[g].key, G[g].cls) == SUCCEED, "C08.S1.setclass");
                break;
            case V_ADDTAGREF: { /* y = index of a symbolic reference number (same index = same value) */
                int32 r = o->y >= 100 ? (int32)srefs[o->y - 100] : o->y; /* y >= 100: symbolic reference number */
                H4V_ASSERT(Vaddtagref(G[g].key, o->x, r) != FAIL, "C08.S1.addtagref");
                G[g].mtag[G[g].nm] = o->x; G[g].mref[G[g].nm] = r; G[g].nm++;
                break;
            }
            case V_INSERTVG:
                H4V_ASSERT(Vinsert(G[g].key, G[o->x].key) != FAIL, "C08.S1.insert.vg");
                G[g].mtag[G[g].nm] = DFTAG_VG; G[g].mref[G[g].nm] = G[o->x].ref; G[g].nm++;
                break;
            case V_INSERTVS: {
                int32 vs = VSattach(fid, S[o->x].ref, "r");
                H4V_ASSERT(vs != FAIL, "C08.S1.vsattach");
                H4V_ASSERT(Vinsert(G[g].key, vs) != FAIL, "C08.S1.insert.vs");
                H4V_ASSERT(VSdetach(vs) == SUCCEED, "C08.S1.vsdetach");
                G[g].mtag[G[g].nm] = DFTAG_VH; G[g].mref[G[g].nm] = S[o->x].ref; G[g].nm++;
                break;
            }
            case V_DELTAGREF:
            case V_DELTAGREF_VG: {
                int32 t = o->op == V_DELTAGREF ? o->x : DFTAG_VG, r = o->op == V_DELTAGREF ? o->y : G[o->x].ref; /* deletions use concrete refs in groups with concrete members */
                int   m, found = -1;
                for (m = 0; m < G[g].nm && found < 0; m++) if (G[g].mtag[m] == t && G[g].mref[m] == r) found = m;
                if (found >= 0) {
                    H4V_ASSERT(Vdeletetagref(G[g].key, t, r) == SUCCEED, "C08.S1.deltagref");
                    for (m = found; m + 1 < G[g].nm; m++) { G[g].mtag[m] = G[g].mtag[m + 1]; G[g].mref[m] = G[g].mref[m + 1]; }
                    G[g].nm--;
                }
                else
                    H4V_ASSERT(Vdeletetagref(G[g].key, t, r) == FAIL, "C08.S1.deltagref.absent: deleting a non-member must fail");
                break;
            }
            case V_DELETE:
                if (G[g].attached) { H4V_ASSERT(Vdetach(G[g].key) == SUCCEED, "C08.S1.detach.before.delete"); G[g].attached = 0; }
                H4V_ASSERT(Vdelete(fid, G[g].ref) == SUCCEED, "C08.S1.vdelete");
                G[g].exists = 0;
                break;
            case V_VSCREATE: {
                int32 vs = VSattach(fid, -1, "w");
                uint8 rec[2] = {1, 2};
                H4V_ASSERT(vs != FAIL, "C08.S1.vscreate");
                H4V_ASSERT(VSfdefine(vs, "A", DFNT_UINT8, 2) == SUCCEED && VSsetfields(vs, "A") == SUCCEED, "C08.S1.vsdefine");
                H4V_ASSERT(VSwrite(vs, rec, 1, FULL_INTERLACE) == 1, "C08.S1.vswrite");
                S[o->x].ref = VSQueryref(vs); S[o->x].exists = 1;
                H4V_ASSERT(VSdetach(vs) == SUCCEED, "C08.S1.vsdetach2");
                break;
            }
            case V_VSDELETE:
                H4V_ASSERT(VSdelete(fid, S[o->x].ref) == SUCCEED, "C08.S1.vsdelete");
                S[o->x].exists = 0;
                break;
            case V_DETACH:
                H4V_ASSERT(Vdetach(G[g].key) == SUCCEED, "C08.S1.detach");
                G[g].attached = 0;
                break;
            case V_ATTACH:
                G[g].key = Vattach(fid, G[g].ref, "w");
                H4V_ASSERT(G[g].key != FAIL, "C08.S1.attach");
                G[g].attached = 1;
                break;
            case V_ATTACH2: {
                int32 k2 = Vattach(fid, G[g].ref, "w");
                H4V_ASSERT(k2 != FAIL, "C08.S1.attach2");
                H4V_ASSERT(Vntagrefs(k2) == G[g].nm, "C08.S1.attach2.view: second handle sees another member count");
                H4V_ASSERT(Vdetach(k2) == SUCCEED, "C08.S1.detach2");
                break;
            }
            case V_REOPEN:
                for (i = 0; i < NG; i++) if (G[i].exists && G[i].attached) { H4V_ASSERT(Vdetach(G[i].key) == SUCCEED, "C08.S1.detach.all"); G[i].attached = 0; }
                H4V_ASSERT(Vend(fid) == SUCCEED, "C08.S1.vend");
                H4V_ASSERT(Hclose(fid) == SUCCEED, "C08.S1.close");
                fid = Hopen("t.hdf", o->x, 0);
                H4V_ASSERT(fid != FAIL, "C08.S1.reopen");
                H4V_ASSERT(Vstart(fid) == SUCCEED, "C08.S1.vstart2");
                for (i = 0; i < NG; i++) if (G[i].exists) {
                    G[i].key = Vattach(fid, G[i].ref, (o->x & DFACC_WRITE) ? "w" : "r");
                    H4V_ASSERT(G[i].key != FAIL, "C08.S1.attach.after.reopen");
                    G[i].attached = 1;
                }
                break;
            case V_CHECK:
                check_file();
                break;
            default: break;
        }
    }
    for (i = 0; i < NG; i++) if (G[i].exists && G[i].attached) H4V_ASSERT(Vdetach(G[i].key) == SUCCEED, "C08.S1.detach.end");
    H4V_ASSERT(Vend(fid) == SUCCEED, "C08.S1.vend.end");
    H4V_ASSERT(Hclose(fid) == SUCCEED, "C08.S1.close.end");
    H4V_WITNESS();
}
