/* C05.K2 — skipping-Huffman coder (real cskphuff.c #included) over the bit-queue
 * model (the real hbitio.c is decided separately in K4).  A concrete prefix (enumerated
 * by the generator; it puts the adaptive trees into different states) followed by ONE
 * symbolic byte is encoded (prefix and byte in separate calls), the coder is
 * re-initialised for reading, everything is decoded (split R) and compared.  Two
 * symbolic bytes do not fit in memory: after the first one the tree itself is symbolic. */
#define union struct
#include "hdf.h"
#include "h4v.h"
#include "hdf_priv.h"
#include "hfile_priv.h"
#include "hcomp_priv.h"
#define QMAX 512
static uint8 Q[QMAX];
static int   Qw = 0, Qr = 0;
int Hbitwrite(int32 b, int count, uint32 data)
{
    int i; (void)b;
    __CPROVER_assert(count >= 1 && count <= 32, "C05.K2.bitcount.write: bit count outside 1..32");
    for (i = count - 1; i >= 0; i--) { __CPROVER_assert(Qw < QMAX, "H4V-MODEL: bit queue too small"); Q[Qw++] = (uint8)((data >> i) & 1u); }
    return count;
}
int Hbitread(int32 b, int count, uint32 *data)
{
    int i; uint32 v = 0; (void)b;
    for (i = 0; i < count; i++) { __CPROVER_assert(Qr < Qw, "C05.K2.underrun: decoder reads more bits than the encoder wrote"); v = (v << 1) | Q[Qr++]; }
    *data = v;
    return count;
}
int   Hbitseek(int32 b, int32 byte_off, int bit_off) { (void)b; Qr = byte_off * 8 + bit_off; return SUCCEED; }
int32 Hstartbitread(int32 f, uint16 t, uint16 r) { (void)f; (void)t; (void)r; Qr = 0; return 5; }
int32 Hstartbitwrite(int32 f, uint16 t, uint16 r, int32 l) { (void)f; (void)t; (void)r; (void)l; return 5; }
int   Hbitappendable(int32 b) { (void)b; return SUCCEED; }
int32 Hendbitaccess(int32 b, int fl) { (void)b; (void)fl; return SUCCEED; }
#include "cskphuff.c"
#ifndef N
#define N 2
#endif
H4V_IN(uint8_t, last);
static const uint8 PFX[] = {PREFIX 0};
static uint8 in[N];
static accrec_t   AR;
static compinfo_t CI;

void harness(void)
{
    comp_coder_skphuff_info_t *si = &CI.cinfo.coder_info.skphuff_info;
    uint8 out[N + 1];
    int   i;
    H4V_GET(last);
#ifdef LASTB /* fully enumerated variant: the adaptive tree makes even one symbolic byte exceed 14 GB / 15 min */
    last = LASTB;
#endif
    for (i = 0; i < N - 1; i++) in[i] = PFX[i];
    in[N - 1] = last;
    AR.special_info = &CI; AR.access = DFACC_RDWR; CI.aid = 5;
    si->skip_size = SKIP;
    H4V_ASSERT(HCIcskphuff_init(&AR, TRUE) == SUCCEED, "C05.K2.init");
    if (N - 1 > 0) H4V_ASSERT(HCIcskphuff_encode(&CI, N - 1, in) == SUCCEED, "C05.K2.encode1");
    H4V_ASSERT(HCIcskphuff_encode(&CI, 1, in + N - 1) == SUCCEED, "C05.K2.encode2");
    H4V_ASSERT(HCIcskphuff_init(&AR, FALSE) == SUCCEED, "C05.K2.reinit");
    if (R > 0) H4V_ASSERT(HCIcskphuff_decode(&CI, R, out) == SUCCEED, "C05.K2.decode1");
    if (N - R > 0) H4V_ASSERT(HCIcskphuff_decode(&CI, N - R, out + R) == SUCCEED, "C05.K2.decode2");
    for (i = 0; i < N; i++) H4V_ASSERT(out[i] == in[i], "C05.K2.roundtrip: decoded byte differs from the byte written");
    H4V_ASSERT(Qr == Qw, "C05.K2.consumed: decoder did not consume exactly the bits written");
    H4V_WITNESS();
}
