/* C05.K1 — run-length coder (real crle.c #included) over the stream model.
 * MODE 0: round trip of N symbolic bytes written in two calls (split W), flushed,
 *         read in two calls (split R), then seek to Q and read K more.
 * MODE 1: inductive step at the run/mix limits: arbitrary valid pending state
 *         (RUN with any count 3..129, or MIX with any count 1..127), PLUS up to 3
 *         more symbolic bytes, flush, decode everything. */
#define union struct /* E5: comp_coder_info_t is a 1352-byte union; see DESIGN.md */
#include "hdf.h"
#include "h4v.h"
#include "hdf_priv.h"
#include "hfile_priv.h"
#include "hcomp_priv.h"
#define SMAX 160
#include "stream_model.h"
#include "crle.c"

#ifndef N
#define N 6
#endif
H4V_IN_ARR(uint8_t, in, N);
H4V_IN(uint8_t, st_run);
H4V_IN(uint8_t, st_len);
H4V_IN(uint8_t, st_byte);
H4V_IN_ARR(uint8_t, st_mix, 128);
H4V_IN(uint8_t, more);

static accrec_t   AR;
static compinfo_t CI;

void harness(void)
{
    comp_coder_rle_info_t *ri = &CI.cinfo.coder_info.rle_info;
    H4V_GET_ARR(in, N);
    AR.special_info = &CI;
    AR.access = DFACC_RDWR;
    CI.aid = 77;
    CI.length = 0;
#if MODE == 0
    {
        uint8 out[N + 1];
        int   i;
        H4V_ASSERT(HCIcrle_init(&AR) == SUCCEED, "C05.K1.init");
        if (W > 0) H4V_ASSERT(HCPcrle_write(&AR, W, in) == W, "C05.K1.write1");
        CI.length = W;
        if (N - W > 0) H4V_ASSERT(HCPcrle_write(&AR, N - W, in + W) == N - W, "C05.K1.write2");
        CI.length = N;
        H4V_ASSERT(HCPcrle_endaccess(&AR) == SUCCEED, "C05.K1.flush: flushing the coder failed");
        /* new read access */
        AR.access = DFACC_READ;
        H4V_ASSERT(HCIcrle_init(&AR) == SUCCEED, "C05.K1.init2");
#if PHASE == 0
        /* three read requests (R, R2-R, N-R2) */
        if (R > 0) H4V_ASSERT(HCPcrle_read(&AR, R, out) == R, "C05.K1.read1");
        if (R2 - R > 0) H4V_ASSERT(HCPcrle_read(&AR, R2 - R, out + R) == R2 - R, "C05.K1.read2");
        if (N - R2 > 0) H4V_ASSERT(HCPcrle_read(&AR, N - R2, out + R2) == N - R2, "C05.K1.read3");
        for (i = 0; i < N; i++) H4V_ASSERT(out[i] == in[i], "C05.K1.roundtrip: decoded byte differs from the byte written");
#elif PHASE == 1
        /* read everything, seek (backward), then read the rest in two requests */
        H4V_ASSERT(HCPcrle_read(&AR, N, out) == N, "C05.K1.readall");
        H4V_ASSERT(HCPcrle_seek(&AR, Q, DF_START) == SUCCEED, "C05.K1.seek");
        if (N - Q > 0) {
            int first = (N - Q) > 1 ? 1 : (N - Q);
            H4V_ASSERT(HCPcrle_read(&AR, first, out) == first, "C05.K1.read4");
            if (N - Q - first > 0) H4V_ASSERT(HCPcrle_read(&AR, N - Q - first, out + first) == N - Q - first, "C05.K1.read5");
            for (i = 0; i < N - Q; i++) H4V_ASSERT(out[i] == in[Q + i], "C05.K1.seekread: byte after seek differs");
        }
#else
        /* forward seek inside the stream after a partial read, then read on */
        if (N >= 3) {
            H4V_ASSERT(HCPcrle_read(&AR, 1, out) == 1 && out[0] == in[0], "C05.K1.read6");
            H4V_ASSERT(HCPcrle_seek(&AR, 2, DF_START) == SUCCEED, "C05.K1.seekfwd");
            H4V_ASSERT(HCPcrle_read(&AR, N - 2, out) == N - 2, "C05.K1.read7");
            for (i = 0; i < N - 2; i++) H4V_ASSERT(out[i] == in[2 + i], "C05.K1.fwdseekread: byte after a forward seek differs");
        }
#endif
    }
#else
    {
        /* Limit states: the coder inspects data only through equality with the last two
         * bytes, so the last two pending bytes and the equality pattern of the new bytes
         * are enumerated (PAT, base 3 per new byte: 0 = equal to the previous byte,
         * 1/2 = two different other values); all other pending bytes stay symbolic. */
        uint8 out[140], nw[3];
        int   i, plen, pat = PAT;
        uint8 prev;
        H4V_GET(st_byte); H4V_GET_ARR(st_mix, 128);
        H4V_ASSERT(HCIcrle_init(&AR) == SUCCEED, "C05.K1.init");
        if (ST_RUN) {
            st_byte = 0x41;
            ri->rle_state = RLE_RUN; ri->buf_length = ST_LEN; ri->last_byte = st_byte; ri->second_byte = st_byte;
            ri->buffer[0] = st_byte; ri->buf_pos = 1;
            prev = st_byte;
        }
        else {
            st_mix[ST_LEN - 1] = 0x41;
            if (ST_LEN >= 2) st_mix[ST_LEN - 2] = TAIL_EQ ? 0x41 : 0x40;
            if (ST_LEN >= 3 && TAIL_EQ) st_mix[ST_LEN - 3] = 0x3f;
            ri->rle_state = RLE_MIX; ri->buf_length = ST_LEN; ri->buf_pos = ST_LEN;
            for (i = 0; i < 128; i++) ri->buffer[i] = st_mix[i];
            ri->last_byte = st_mix[ST_LEN - 1];
            ri->second_byte = ST_LEN >= 2 ? st_mix[ST_LEN - 2] : (unsigned)RLE_NIL;
            prev = 0x41;
        }
        plen = ST_LEN;
        for (i = 0; i < MORE; i++) {
            int d = pat % 3;
            pat /= 3;
            nw[i] = d == 0 ? prev : (uint8)(prev + d);
            prev = nw[i];
        }
        ri->offset = plen; CI.length = plen;
        if (MORE > 0) H4V_ASSERT(HCPcrle_write(&AR, MORE, nw) == MORE, "C05.K1.ind.write");
        CI.length = plen + MORE;
        H4V_ASSERT(HCPcrle_endaccess(&AR) == SUCCEED, "C05.K1.ind.flush: flushing the coder failed");
        AR.access = DFACC_READ;
        H4V_ASSERT(HCIcrle_init(&AR) == SUCCEED, "C05.K1.init2");
        H4V_ASSERT(HCPcrle_read(&AR, plen + MORE, out) == plen + MORE, "C05.K1.ind.read");
        for (i = 0; i < 132; i++) {
            if (i < plen) H4V_ASSERT(out[i] == (ST_RUN ? st_byte : st_mix[i]), "C05.K1.ind.pending: pending run/mix bytes lost or altered at the limit");
            else if (i < plen + MORE) H4V_ASSERT(out[i] == nw[i - plen], "C05.K1.ind.new: byte written after a long run/mix altered");
        }
        H4V_ASSERT(S_pos == S_len, "C05.K1.ind.consumed: decoder did not consume exactly the encoded stream");
    }
#endif
    H4V_WITNESS();
}
