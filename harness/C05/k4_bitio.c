/* C05.K4 — bit-granular element I/O (real hbitio.c #included, real atom.c linked)
 * over the stream model.  NF fields with SYMBOLIC widths 1..32 and values are
 * written, flushed, then read back; then a symbolic bit seek and a re-read.
 * MODE 1 additionally reads a field back on the write id (write->read switch);
 * MODE 2 also switches back to writing (read->write switch; known finding F9). */
#include "hdf.h"
#include "h4v.h"
#include "hdf_priv.h"
#include "hfile_priv.h"
#define SMAX 64
#include "stream_model.h"
#include "hbitio.c"
#ifndef NF
#define NF 3
#endif
H4V_IN_ARR(uint8_t, w, NF);
H4V_IN_ARR(uint32_t, v, NF);
H4V_IN(uint8_t, k);
H4V_IN(uint32_t, v2);

static uint32 mask(int n) { return n >= 32 ? 0xffffffffu : ((1u << n) - 1u); }

void harness(void)
{
    int32  b;
    int    i, bits = 0, start[NF + 1];
    uint32 got;
    H4V_GET_ARR(w, NF); H4V_GET_ARR(v, NF); H4V_GET(k); H4V_GET(v2);
#ifdef FIXW
    { static const uint8 FW[] = {FIXW}; for (i = 0; i < NF; i++) w[i] = FW[i]; }
#endif
    for (i = 0; i < NF; i++) H4V_ASSUME(w[i] >= 1 && w[i] <= 32);
    b = Hstartbitwrite(1, 1000, 1, 0);
    H4V_ASSERT(b != FAIL, "C05.K4.startwrite");
    for (i = 0; i < NF; i++) {
        start[i] = bits;
        H4V_ASSERT(Hbitwrite(b, w[i], v[i]) == w[i], "C05.K4.write: Hbitwrite did not report the field width");
        bits += w[i];
    }
    start[NF] = bits;
#if MODE >= 1
    /* read-after-write on the same id: seek back to field k, read it, overwrite it with v2, continue */
    k = KSEL;
    H4V_ASSUME(k < NF);
    H4V_ASSERT(Hbitseek(b, start[k] / 8, start[k] % 8) == SUCCEED, "C05.K4.rw.seek");
    H4V_ASSERT(Hbitread(b, w[k], &got) == w[k], "C05.K4.rw.read");
    H4V_ASSERT(got == (v[k] & mask(w[k])), "C05.K4.rw.value: bits read back on a write id differ from the bits written");
#if MODE == 2 /* ... and switch back to writing: overwrite field k in place */
    H4V_ASSERT(Hbitseek(b, start[k] / 8, start[k] % 8) == SUCCEED, "C05.K4.rw.seek2");
    H4V_ASSERT(Hbitwrite(b, w[k], v2) == w[k], "C05.K4.rw.rewrite");
    v[k] = v2;
#endif
    /* move back to the end of the data before closing */
    H4V_ASSERT(Hbitseek(b, bits / 8, bits % 8) == SUCCEED, "C05.K4.rw.seekend");
#endif
    H4V_ASSERT(Hendbitaccess(b, 0) == SUCCEED, "C05.K4.end");
    H4V_ASSERT(S_len == (bits + 7) / 8, "C05.K4.size: stored size differs from ceil(bits/8)");
    b = Hstartbitread(1, 1000, 1);
    H4V_ASSERT(b != FAIL, "C05.K4.startread");
    for (i = 0; i < NF; i++) {
        H4V_ASSERT(Hbitread(b, w[i], &got) == w[i], "C05.K4.read");
        H4V_ASSERT(got == (v[i] & mask(w[i])), "C05.K4.value: bits read differ from the bits written");
    }
    /* bit seek to the start of each field (last to first) and re-read it */
    for (i = NF - 1; i >= 0; i--) {
        H4V_ASSERT(Hbitseek(b, start[i] / 8, start[i] % 8) == SUCCEED, "C05.K4.seek");
        H4V_ASSERT(Hbitread(b, w[i], &got) == w[i], "C05.K4.read2");
        H4V_ASSERT(got == (v[i] & mask(w[i])), "C05.K4.seekvalue: bits read after a bit seek differ");
    }
    H4V_ASSERT(Hendbitaccess(b, 0) == SUCCEED, "C05.K4.end2");
    H4V_WITNESS();
}
