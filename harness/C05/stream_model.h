/* stream_model.h — byte-stream model of the H-level element below a coder
 * (Hstartread/Hstartaccess/Hseek/Hread/Hwrite/HDgetc/HDputc/Hendaccess/Htell/Hinquire on one
 * growable byte array).  Used by the C05 coder kernels in place of hfile.c. */
#ifndef SMAX
#define SMAX 64
#endif
static uint8 S_data[SMAX];
static int32 S_len = 0, S_pos = 0;
static int   S_fail_reads = 0;
int32 Hstartread(int32 f, uint16 t, uint16 r) { (void)f; (void)t; (void)r; S_pos = 0; return 77; }
int32 Hstartaccess(int32 f, uint16 t, uint16 r, uint32 fl) { (void)f; (void)t; (void)r; (void)fl; S_pos = 0; return 77; }
int   Hendaccess(int32 a) { (void)a; return SUCCEED; }
int   Hseek(int32 a, int32 off, int origin)
{
    (void)a;
    if (origin == DF_CURRENT) off += S_pos;
    if (origin == DF_END) off += S_len;
    if (off < 0) return FAIL;
    S_pos = off;
    return SUCCEED;
}
int32 Htell(int32 a) { (void)a; return S_pos; }
int32 Hread(int32 a, int32 n, void *d)
{
    uint8 *o = (uint8 *)d; int32 i;
    (void)a;
    if (n < 0) return FAIL;
    if (n == 0 || S_pos + n > S_len) n = S_len - S_pos;
    if (n < 0) return FAIL;
    for (i = 0; i < n; i++) o[i] = S_data[S_pos + i];
    S_pos += n;
    return n;
}
int32 Hwrite(int32 a, int32 n, const void *d)
{
    const uint8 *s = (const uint8 *)d; int32 i;
    (void)a;
    if (n <= 0) return FAIL;
    __CPROVER_assert(S_pos + n <= SMAX, "H4V-MODEL: stream model too small");
    for (i = 0; i < n; i++) S_data[S_pos + i] = s[i];
    S_pos += n;
    if (S_pos > S_len) S_len = S_pos;
    return n;
}
int HDgetc(int32 a) { uint8 c; if (Hread(a, 1, &c) != 1) return FAIL; return (int)c; }
int HDputc(uint8 c, int32 a) { if (Hwrite(a, 1, &c) != 1) return FAIL; return (int)c; }
/* extras needed by hbitio.c */
static int S_exists = 0;
int   Hexist(int32 f, uint16 t, uint16 r) { (void)f; (void)t; (void)r; return S_exists ? SUCCEED : FAIL; }
int32 Hstartwrite(int32 f, uint16 t, uint16 r, int32 len) { (void)f; (void)t; (void)r; (void)len; S_pos = 0; S_exists = 1; return 77; }
int   Hinquire(int32 a, int32 *pf, uint16 *pt, uint16 *pr, int32 *plen, int32 *poff, int32 *ppos, int16 *pacc, int16 *psp)
{
    (void)a;
    if (pf) *pf = 1; if (pt) *pt = 1000; if (pr) *pr = 1; if (plen) *plen = S_len; if (poff) *poff = 0; if (ppos) *ppos = S_pos;
    if (pacc) *pacc = DFACC_RDWR; if (psp) *psp = 0;
    return SUCCEED;
}
int Happendable(int32 a) { (void)a; return SUCCEED; }
