/* C05.K3 — n-bit coder (real cnbit.c #included) over a bit-queue model of
 * Hbitwrite/Hbitread/Hbitseek (the real hbitio.c is decided separately in K4).
 * Build parameters NTSZ in {1,2,4}, START_BIT, PART.  Symbolic: three values (all bit
 * patterns); bit length, sign extension and fill are looped.  The values are written as
 * [1 value][2 values] and read back in the partition selected by PART
 * (0: one call, 1: [1][2] — a growing request, 2: [2][1]), then the second value is
 * re-read after a seek.
 * Oracle: independently written projection (keep field, fill the rest,
 * sign-extend above the field). */
#define union struct
#include "hdf.h"
#include "h4v.h"
#include "hdf_priv.h"
#include "hfile_priv.h"
#include "hcomp_priv.h"
#define QMAX 96
static uint8 Q[QMAX];
static int   Qw = 0, Qr = 0;
int Hbitwrite(int32 b, int count, uint32 data)
{
    int i; (void)b;
    __CPROVER_assert(count >= 1 && count <= 32, "C05.K3.bitcount.write: bit-field width outside 1..32");
    for (i = count - 1; i >= 0; i--) { __CPROVER_assert(Qw < QMAX, "H4V-MODEL: bit queue too small"); Q[Qw++] = (uint8)((data >> i) & 1u); }
    return count;
}
int Hbitread(int32 b, int count, uint32 *data)
{
    int i; uint32 v = 0; (void)b;
    __CPROVER_assert(count >= 1 && count <= 32, "C05.K3.bitcount.read: bit-field width outside 1..32");
    for (i = 0; i < count; i++) { __CPROVER_assert(Qr < Qw, "C05.K3.underrun: decoder reads more bits than the encoder wrote"); v = (v << 1) | Q[Qr++]; }
    *data = v;
    return count;
}
int Hbitseek(int32 b, int32 byte_off, int bit_off) { (void)b; Qr = byte_off * 8 + bit_off; return SUCCEED; }
int32 Hstartbitread(int32 f, uint16 t, uint16 r) { (void)f; (void)t; (void)r; Qr = 0; return 5; }
int32 Hstartbitwrite(int32 f, uint16 t, uint16 r, int32 l) { (void)f; (void)t; (void)r; (void)l; return 5; }
int   Hbitappendable(int32 b) { (void)b; return SUCCEED; }
int32 Hendbitaccess(int32 b, int fl) { (void)b; (void)fl; return SUCCEED; }
#include "cnbit.c"

#define NV 3
#ifndef BLSUB
#define BLSUB 0
#endif
#ifndef PART
#define PART 1
#endif
H4V_IN_ARR(uint8_t, val, NV * NTSZ);
H4V_IN(uint8_t, start_bit);
H4V_IN(uint8_t, bit_len);
H4V_IN(uint8_t, sign_ext);
H4V_IN(uint8_t, fill_one);
H4V_IN(uint8_t, pick);

static accrec_t   AR;
static compinfo_t CI;

static uint32 project(uint32 x, int bits, int so, int bl, int se, int fo)
{
    uint32 all  = bits == 32 ? 0xffffffffu : ((1u << bits) - 1u);
    uint32 fld  = bl == 32 ? 0xffffffffu : ((1u << bl) - 1u);
    uint32 keep = (fld << (so - bl + 1)) & all;
    uint32 r    = (x & keep) | (fo ? (~keep & all) : 0u);
    if (se) {
        uint32 high = so == 31 ? 0u : ((~((1u << (so + 1)) - 1u)) & all);
        uint32 sgn  = (x >> so) & 1u;
        r = (r & ~high) | (sgn ? high : 0u);
    }
    return r;
}

static void one(int sb, int bl, int se, int fo)
{
    comp_coder_nbit_info_t *ni = &CI.cinfo.coder_info.nbit_info;
    uint8  out[NV * NTSZ];
    int    i, bits = NTSZ * 8, e;
    uint32 x, want, got;
    Qw = Qr = 0;
    AR.special_info = &CI; AR.access = DFACC_RDWR; CI.aid = 5;
    ni->nt_size = NTSZ; ni->fill_one = fo; ni->sign_ext = se; ni->mask_off = sb; ni->mask_len = bl;
    H4V_ASSERT(HCIcnbit_init(&AR) == SUCCEED, "C05.K3.init");
    /* whole-value transfers: first value, then the rest */
    H4V_ASSERT(HCPcnbit_write(&AR, NTSZ, val) == NTSZ, "C05.K3.write1");
    H4V_ASSERT(HCPcnbit_write(&AR, (NV - 1) * NTSZ, val + NTSZ) == (NV - 1) * NTSZ, "C05.K3.write2");
    H4V_ASSERT(Qw == NV * bl, "C05.K3.size: stored bits differ from values x bit length");
    H4V_ASSERT(HCIcnbit_init(&AR) == SUCCEED, "C05.K3.init2");
#if PART == 0
    H4V_ASSERT(HCPcnbit_read(&AR, NV * NTSZ, out) == NV * NTSZ, "C05.K3.read");
#elif PART == 1
    H4V_ASSERT(HCPcnbit_read(&AR, NTSZ, out) == NTSZ, "C05.K3.read.a");
    H4V_ASSERT(HCPcnbit_read(&AR, (NV - 1) * NTSZ, out + NTSZ) == (NV - 1) * NTSZ, "C05.K3.read.b");
#else
    H4V_ASSERT(HCPcnbit_read(&AR, (NV - 1) * NTSZ, out) == (NV - 1) * NTSZ, "C05.K3.read.a");
    H4V_ASSERT(HCPcnbit_read(&AR, NTSZ, out + (NV - 1) * NTSZ) == NTSZ, "C05.K3.read.b");
#endif
    for (e = 0; e < NV; e++) {
        x = 0; got = 0;
        for (i = 0; i < NTSZ; i++) { x = (x << 8) | val[e * NTSZ + i]; got = (got << 8) | out[e * NTSZ + i]; }
        want = project(x, bits, sb, bl, se, fo);
        H4V_ASSERT(got == want, "C05.K3.project: decoded value is not the documented projection of the value written (any partition into whole-value reads)");
    }
    /* seek to the second value and re-read it */
    H4V_ASSERT(HCPcnbit_seek(&AR, NTSZ, DF_START) == SUCCEED, "C05.K3.seek");
    H4V_ASSERT(HCPcnbit_read(&AR, NTSZ, out) == NTSZ, "C05.K3.read2");
    x = 0; got = 0;
    for (i = 0; i < NTSZ; i++) { x = (x << 8) | val[NTSZ + i]; got = (got << 8) | out[i]; }
    H4V_ASSERT(got == project(x, bits, sb, bl, se, fo), "C05.K3.seekproject: value after seek is not the projection");
}

void harness(void)
{
    int bl, se, fo;
    H4V_GET_ARR(val, NV * NTSZ);
    /* parameters enumerated (they drive the coder's control flow); values symbolic */
    for (bl = 1; bl <= START_BIT + 1; bl++) {
#if BLSUB /* quick tier, 4-byte types: bit lengths at and next to the byte boundaries and at both ends of the range */
        if (!(bl <= 2 || bl % 8 <= 1 || bl % 8 == 7 || bl >= START_BIT)) continue;
#endif
        for (se = 0; se <= 1; se++)
            for (fo = 0; fo <= 1; fo++)
                one(START_BIT, bl, se, fo);
    }
    H4V_WITNESS();
}
