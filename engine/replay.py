"""bin/check --replay <file>: rebuild the harness of a recorded counterexample natively
(gcc + ASan/UBSan) against /repo's current sources and run it on the recorded inputs."""
import json, sys
from engine import h4v

def main(path):
    d = json.load(open(path))
    ctx = h4v.Ctx()
    try:
        h = h4v.H(d["harness"], d["property"], src=d.get("src"), text=d.get("harness_text"), units=d.get("units", []),
                  models=d.get("models", ["memloops"]), defs=d.get("defs", {}), kind=d.get("kind", "K"), mf=d.get("mf", False),
                  extra_cc=d.get("extra_cc", []))
        if h.text is not None:
            import os, re
            open(os.path.join(ctx.dir, "gen_%s.c" % re.sub(r"[^A-Za-z0-9_]", "_", h.name)), "w").write(h.text)
        inputs = {k: int(v) for k, v in d.get("inputs", {}).items()}
        rep, out = h4v.native_replay(ctx, h, inputs)
        print(out[-6000:])
        if rep is True:
            print("REPLAY: reproduced against the current tree (%s)" % d["harness"])
            return 1
        if rep is False:
            print("REPLAY: does not reproduce on the current tree (%s)" % d["harness"])
            return 0
        print("REPLAY: could not be built/run")
        return 2
    finally:
        ctx.close()
