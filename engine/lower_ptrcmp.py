"""E8: lower relational comparisons between pointers, `a OP b`  ->  `((a) - (b)) OP 0`.

mfhdf iterates with `for (; ip >= boundary; ip--)`, i.e. forms a pointer one element
below an array and compares it; CBMC's pointer encoding never exits such loops.  The
comparison sites are located exactly with clang's JSON AST (BinaryOperator with a
relational opcode whose operands both have pointer type), not by regex, and rewritten
in a scratch copy regenerated from /repo on every run.  Semantics-preserving for
same-array pointers (the only case ISO C defines)."""
import json, os, subprocess

REL = {"<", ">", "<=", ">="}

def _walk(node, out, infile):
    if not isinstance(node, dict):
        return
    # track whether we are inside the main file: clang prints "file" in loc/range when it changes
    rng = node.get("range", {})
    for key in ("begin", "end"):
        b = rng.get(key, {})
        if "file" in b:
            infile[0] = b["file"]
        if "expansionLoc" in b and "file" in b["expansionLoc"]:
            infile[0] = b["expansionLoc"]["file"]
    loc = node.get("loc", {})
    if "file" in loc:
        infile[0] = loc["file"]
    if node.get("kind") == "BinaryOperator" and node.get("opcode") in REL:
        inner = node.get("inner", [])
        if len(inner) == 2 and all(i.get("type", {}).get("qualType", "").rstrip().endswith("*") for i in inner):
            out.append((infile[0], node["opcode"], inner[0].get("range", {}), inner[1].get("range", {})))
    for ch in node.get("inner", []) or []:
        _walk(ch, out, infile)

def _span(r):
    b, e = r.get("begin", {}), r.get("end", {})
    if "offset" not in b or "offset" not in e:
        return None
    return b["offset"], e["offset"] + e.get("tokLen", 1)

def lower(src, dst, flags):
    """Returns the number of rewritten comparison sites (raises on clang failure)."""
    r = subprocess.run(["clang-14", "-Xclang", "-ast-dump=json", "-fsyntax-only", "-w"] + flags + [src], capture_output=True, text=True)
    if r.returncode != 0 or not r.stdout:
        raise RuntimeError("clang could not parse %s: %s" % (src, r.stderr[-800:]))
    ast = json.loads(r.stdout)
    sites = []
    _walk(ast, sites, [None])
    text = open(src, "rb").read().decode("latin-1")
    edits = []
    real = os.path.realpath(src)
    for f, op, lr, rr in sites:
        if f is not None and os.path.realpath(f) != real:
            continue
        ls, rs = _span(lr), _span(rr)
        if not ls or not rs:
            continue
        between = text[ls[1]:rs[0]]
        if between.strip() != op:
            continue  # macro expansion or something we do not understand: leave untouched
        edits.append((ls[0], rs[1], "((%s) - (%s)) %s 0" % (text[ls[0]:ls[1]], text[rs[0]:rs[1]], op)))
    edits.sort(reverse=True)
    for a, b, rep in edits:
        text = text[:a] + rep + text[b:]
    with open(dst, "wb") as fo:
        fo.write(text.encode("latin-1"))
    return len(edits)
