from engine.h4v import H, libhdf_units, libmfhdf_units
META = {}
def plan(ctx, tier, seed):
    lower = ["mfhdf/src/putget.c", "mfhdf/src/var.c", "mfhdf/src/array.c", "mfhdf/src/putgetg.c", "mfhdf/src/mfsd.c", "mfhdf/src/cdf.c", "/tmp/cdfdbg/mfhdf/src/cdf.c", "/tmp/cdfdbg/mfhdf/src/var.c", "mfhdf/src/attr.c", "mfhdf/src/dim.c"]
    return [H("probe.sdreopen", "probe", src="harness/probe/sd_reopen_dbg.c", units=libhdf_units() + [("/tmp/cdfdbg/" + u if (u.endswith("/cdf.c") or u.endswith("/var.c")) and __import__("os").path.exists("/tmp/cdfdbg/mfhdf/src/cdf.c") else u) for u in libmfhdf_units()], models=["memio", "herr", "memloops", "printf"],
              defs={"MEMIO_DISK_SZ": 8192}, unwind=5000, kind="S", timeout=2400, mf=True, lower=lower, symbolic="16 bytes")]
