"""C01 — data-element byte streams read back exactly what was written."""
import random
from checks.hgen import *

META = dict(
    bounds=["S: concrete skeletons of <= 30 calls (18 curated + seed-derived), transfers <= 16 bytes, files <= 8 KiB, every payload byte symbolic",
            "no kernel harnesses"],
    stubs=["stdio = models/memio.c (bytes written are the bytes read; short reads at EOF; zero-filled gaps)",
           "error stack = models/herr_model.c (codes only)", "malloc never fails", "atom cache swap via H4_VERIF hook"],
    outside=["lengths/positions symbolic only in kernel harnesses", "transfers > 16 bytes", "more than 4 elements"],
    manifest=dict(
        level="Bounded model checking (CBMC/SAT) of the whole real libhdf on an in-memory stdio model: for each concrete call skeleton "
              "(curated + seed-derived; contiguous, silently promoted, explicit linked blocks with small block sizes, external, two access ids, "
              "dup/delete, reopen) the solver decides every transfer count, position, length and data byte for ALL payload contents, together with "
              "every pointer/bounds check CBMC generates in the library. Skeletons are enumerated, not symbolic.",
        note="Trusted: memio stdio contract, codes-only error stack, H4_VERIF atom-cache swap hook, malloc never fails, CBMC 6.11 + MiniSat. "
             "Bounds: <=18 calls per skeleton, transfers <=16 bytes, file <=8 KiB. Lengths/positions are concrete per skeleton.",
        technique="CBMC bounded model checking of real libhdf sources; symbolic payload, concrete call skeleton; native ASan replay of counterexamples"),
)

def curated():
    S = []
    # 1. plain write, reopen, read back in two parts with seeks
    S.append(("plain", [CREATE(16), STARTACC(0, 0, 3), WRITE(0, 8), INQUIRE(0), SEEK(0, 2), WRITE(0, 3), ENDACC(0), CLOSE(),
                        OPEN(DFACC_READ), STARTACC(0, 0, 1), READ(0, 3), SEEK(0, -2, DF_END), READ(0, 5), SEEK(0, 1), READ(0, 0),
                        ENDACC(0), CHECKALL(), CLOSE()]))
    # 2. append to an element that is not last in the file -> silent promotion to linked blocks
    S.append(("promote", [CREATE(16), PUT(0, 6), PUT(1, 4), STARTACC(0, 0, 7), SEEK(0, 0, DF_END), WRITE(0, 5), INQUIRE(0),
                          SEEK(0, 3), READ(0, 6), ENDACC(0), CLOSE(), OPEN(DFACC_RDWR), GET(0), GET(1), STARTACC(0, 0, 1),
                          SEEK(0, 4), READ(0, 0), ENDACC(0), CHECKALL(), CLOSE()]))
    # 3. append at the end of the file (stays contiguous), seek past end then write (gap)
    S.append(("gap", [CREATE(16), PUT(0, 4), STARTACC(0, 0, 7), SEEK(0, 7), WRITE(0, 3), INQUIRE(0), ENDACC(0), CLOSE(),
                      OPEN(DFACC_READ), STARTACC(0, 0, 1), READ(0, 0), ENDACC(0), CHECKALL(), CLOSE()]))
    # 4. linked blocks created explicitly, sparse writes, reads inside holes
    S.append(("sparse", [CREATE(16), HLCREATE(0, 0, 4, 2), WRITE(0, 4), SEEK(0, 12), WRITE(0, 4), INQUIRE(0), ENDACC(0), CLOSE(),
                         OPEN(DFACC_READ), STARTACC(0, 0, 1), READ(0, 16), SEEK(0, 4), READ(0, 4), SEEK(0, 2), READ(0, 6),
                         SEEK(0, 10), READ(0, 0), ENDACC(0), CHECKALL(), CLOSE()]))
    # 5. linked blocks with block length 3 and 1-entry tables; contiguous writes crossing several tables
    S.append(("lb3", [CREATE(4), HLCREATE(0, 0, 3, 1), WRITE(0, 5), WRITE(0, 6), SEEK(0, 2), WRITE(0, 4), SEEK(0, 1), READ(0, 9),
                      ENDACC(0), CLOSE(), OPEN(DFACC_RDWR), STARTACC(0, 0, 3), SEEK(0, 9), WRITE(0, 4), SEEK(0, 0), READ(0, 0),
                      ENDACC(0), CHECKALL(), CLOSE()]))
    # 6. two interleaved access ids on one element
    S.append(("two-aids", [CREATE(16), PUT(0, 8), STARTACC(0, 0, 3), STARTACC(0, 1, 1), SEEK(0, 4), WRITE(0, 2), READ(1, 8),
                           SEEK(1, 4), READ(1, 2), WRITE(0, 2), SEEK(1, 0), READ(1, 0), ENDACC(0), ENDACC(1), CHECKALL(), CLOSE()]))
    # 7. external element
    S.append(("external", [CREATE(16), HXCREATE(0, 0, 0), WRITE(0, 6), SEEK(0, 2), READ(0, 3), ENDACC(0), PUT(1, 3), CLOSE(),
                           OPEN(DFACC_RDWR), STARTACC(0, 0, 3), SEEK(0, 4), WRITE(0, 5), SEEK(0, 0), READ(0, 0), ENDACC(0),
                           GET(1), CLOSE()]))
    # 8. reserved length, partial writes, truncate, overwrite
    S.append(("reserve-trunc", [CREATE(16), STARTWRITE(0, 0, 10), WRITE(0, 10), SEEK(0, 3), WRITE(0, 2), TRUNC(0, 6), INQUIRE(0),
                                SEEK(0, 0), READ(0, 0), WRITE(0, 1), ENDACC(0), CLOSE(), OPEN(DFACC_READ), GET(0), CHECKALL(), CLOSE()]))
    # 9. dup and delete
    S.append(("dup-del", [CREATE(4), PUT(0, 5), PUT(1, 3), PUT(2, 4), DUPDD(3, 0), CHECKALL(), DELDD(0), CHECKALL(), GET(3), CLOSE(),
                          OPEN(DFACC_READ), CHECKALL(), GET(3), GET(1), CLOSE()]))
    # 10. existing data promoted by HLcreate on an existing element, then grown
    S.append(("hl-existing", [CREATE(16), PUT(0, 6), PUT(1, 2), HLCREATE(0, 0, 4, 2), SEEK(0, 6), WRITE(0, 7), SEEK(0, 0), READ(0, 0),
                              ENDACC(0), CLOSE(), OPEN(DFACC_READ), GET(0), GET(1), CHECKALL(), CLOSE()]))
    # 11. cache off, element appended across reopen
    S.append(("reopen-append", [CREATE(5), CACHE(0), PUT(0, 4), CLOSE(), OPEN(DFACC_RDWR), STARTACC(0, 0, 7), SEEK(0, 0, DF_END),
                                WRITE(0, 4), ENDACC(0), PUT(1, 2), CLOSE(), OPEN(DFACC_RDWR), STARTACC(0, 0, 7), SEEK(0, 0, DF_END),
                                WRITE(0, 3), SEEK(0, 0), READ(0, 0), ENDACC(0), CHECKALL(), CLOSE()]))
    # 12. read at end / length-0 reads on a linked-block element
    S.append(("lb-eof", [CREATE(16), HLCREATE(0, 0, 8, 2), WRITE(0, 5), SEEK(0, 0), READ(0, 5), SEEK(0, 3), READ(0, 9),
                         ENDACC(0), CLOSE(), OPEN(DFACC_READ), STARTACC(0, 0, 1), READ(0, 0), ENDACC(0), CLOSE()]))
    # 13. read exactly at the end of a linked-block element whose last block is partly filled; read after seeking past the end
    S.append(("lb-eof2", [CREATE(16), HLCREATE(0, 0, 8, 2), WRITE(0, 5), READ(0, 4), SEEK(0, 5), READ(0, 1), ENDACC(0), CLOSE()]))
    S.append(("lb-seekpast", [CREATE(16), HLCREATE(0, 0, 4, 2), WRITE(0, 5), SEEK(0, 9), READ(0, 4), SEEK(0, 0), READ(0, 0), ENDACC(0), CLOSE()]))
    # 14. one write that crosses from a full link table into an already existing next table and allocates a new block there
    S.append(("lb-cross-table", [CREATE(16), HLCREATE(0, 0, 4, 2), WRITE(0, 12), ENDACC(0), STARTACC(0, 0, 3), SEEK(0, 4), WRITE(0, 12), ENDACC(0),
                               STARTACC(0, 0, 1), READ(0, 0), ENDACC(0), CLOSE(), OPEN(DFACC_READ), GET(0), CHECKALL(), CLOSE()]))
    # 15. tail block first, then the front in one write across two tables
    S.append(("lb-tail-first", [CREATE(16), HLCREATE(0, 0, 4, 2), SEEK(0, 12), WRITE(0, 4), SEEK(0, 0), WRITE(0, 12), ENDACC(0), STARTACC(0, 0, 1), READ(0, 0), ENDACC(0),
                              CLOSE(), OPEN(DFACC_READ), GET(0), CLOSE()]))
    # 16. external element at a non-zero offset of the external file: grow, then overwrite in place near the end
    S.append(("external-offset", [CREATE(16), HXCREATE(0, 0, 4), WRITE(0, 12), SEEK(0, 2), WRITE(0, 4), INQUIRE(0), SEEK(0, 6), WRITE(0, 4), INQUIRE(0), SEEK(0, 0), READ(0, 0), ENDACC(0), CLOSE(),
                                OPEN(DFACC_READ), GET(0), STARTACC(0, 0, 1), SEEK(0, 8), READ(0, 4), ENDACC(0), CLOSE()]))
    # 17. 1-entry link tables; ONE write that creates the second and the third table mid-write; re-read after reopen
    S.append(("lb-third-table", [CREATE(16), HLCREATE(0, 0, 4, 1), WRITE(0, 12), SEEK(0, 0), READ(0, 0), ENDACC(0), CLOSE(),
                               OPEN(DFACC_READ), GET(0), STARTACC(0, 0, 1), SEEK(0, 7), READ(0, 5), ENDACC(0), CHECKALL(), CLOSE()]))
    # 18. DD caching off: a linked block reserved with 3 bytes of which 2 are written; the unwritten tail byte reads as zero now and after reopen
    S.append(("nocache-reserve-tail", [CREATE(5), CACHE(0), HLCREATE(0, 0, 3, 2), WRITE(0, 2), ENDACC(0), PUT(1, 5), STARTACC(0, 0, 7), SEEK(0, 4), WRITE(0, 1),
                                     SEEK(0, 2), READ(0, 1), SEEK(0, 0), READ(0, 0), ENDACC(0), CLOSE(), OPEN(DFACC_READ), GET(0), GET(1), CLOSE()]))
    return S

def random_skeleton(rng, small=False):
    """seed-derived extra skeletons: random but semantically valid op sequences."""
    ops = [CREATE(rng.choice([4, 5, 16]))]
    if rng.random() < 0.3:
        ops.append(CACHE(0))
    lens = {}
    kinds = {}
    for e in (0, 1):
        k = rng.choice(["put", "hl", "acc"])
        kinds[e] = k
        if k == "put":
            n = rng.randint(1, 8); ops.append(PUT(e, n)); lens[e] = n
        elif k == "hl":
            bl, nb = rng.choice([1, 3, 4]), rng.choice([1, 2])
            n = rng.randint(1, 8)
            ops += [HLCREATE(e, 0, bl, nb), WRITE(0, n), ENDACC(0)]; lens[e] = n
        else:
            n = rng.randint(1, 8)
            ops += [STARTACC(e, 0, 3), WRITE(0, n), ENDACC(0)]; lens[e] = n
    grower = None  # growing a contiguous element promotes it to 4096-byte linked blocks: at most one such element per skeleton (model disk 8 KiB)
    for _ in range(rng.randint(1, 2) if small else rng.randint(2, 4)):  # quick tier: short skeletons (per-command time budget)
        e = rng.choice([0, 1])
        ops.append(STARTACC(e, 0, 7))
        pos = rng.randint(0, lens[e] + (2 if kinds[e] != "put" or True else 0))
        n = rng.randint(1, 6)
        if kinds[e] != "hl" and pos + n > lens[e]:
            if grower is None:
                grower = e
            elif grower != e:   # in-place overwrite instead
                pos = rng.randint(0, lens[e] - 1); n = rng.randint(1, lens[e] - pos)
        ops.append(SEEK(0, pos))
        ops.append(WRITE(0, n))
        lens[e] = max(lens[e], pos + n)
        rp = rng.randint(0, lens[e] - 1)
        ops += [SEEK(0, rp), READ(0, rng.randint(0, 8)), ENDACC(0)]
        if not small and rng.random() < 0.4:
            ops += [CLOSE(), OPEN(DFACC_RDWR)]
    ops += [CLOSE(), OPEN(DFACC_READ), GET(0), GET(1), CHECKALL(), CLOSE()]
    return ops

def plan(ctx, tier, seed):
    hs = []
    for nm, ops in curated():
        hs.append(scenario("C01.S1." + nm, "C01", ops, disk=8192 if nm in ("promote", "reopen-append", "gap") else 4096))
    rng = random.Random(1000 + seed)
    nrand = 2 if tier == "quick" else 60
    for i in range(nrand):
        hs.append(scenario("C01.S1.rand%d" % i, "C01", random_skeleton(rng, small=(tier == "quick")), disk=8192, group="C01.S1.rand"))
    return hs
