"""C18 — hrepack preserves all content while changing only layout."""
from engine.h4v import H, REPO

META = dict(
    bounds=["K3: hrepack's layout decision options_get_info/options_get_object with symbolic global and per-object options (-c/-t for all or listed objects, chunk rank incl. NONE, "
            "chunk lengths, coder NONE/RLE/HUFF/GZIP + parameter), object rank 1..2, object listed or not, symbolic existing layout"],
    stubs=["printf = CBMC built-in"],
    outside=["the copy routines (copy_sds/copy_gr/copy_vs/...: need the mfhdf SD whole stack, see DESIGN.md)", "option-string and option-file parsing", "szip/JPEG",
             "idempotence of repacking (needs the copy routines)"],
    manifest=dict(
        level="Bounded model checking (CBMC/SAT) of the real hrepack decision code (hrepack_utils.c, hrepack_opttable.c): for ALL combinations of global/per-object chunking and "
              "compression requests, object rank and existing layout, the solver decides that an explicit NONE is honoured, that a requested chunk shape/coder/parameter is what "
              "is returned, that objects without a request keep their compression, and that no invalid memory is touched.",
        note="Trusted: CBMC 6.11. Only the 'each object has the requested layout' clause of C18 is decided; content preservation by the copy routines is outside this check.",
        technique="CBMC bounded model checking of real hrepack option-decision code with fully symbolic options"),
)

def plan(ctx, tier, seed):
    hs = []
    for match in (0, 1):
        hs.append(H("C18.K3.decide.match%d" % match, "C18", src="harness/C18/k3_decide.c",
                    units=["mfhdf/hrepack/hrepack_utils.c", "mfhdf/hrepack/hrepack_opttable.c"], models=["herr", "memloops"], defs={"MATCH": match},
                    unwind=12, kind="K", timeout=900, mf=True, field_sens=64, extra_cc=["-I" + REPO + "/mfhdf/hrepack"],
                    symbolic="all option fields, rank, existing layout", bound="1 table entry, rank <= 2", group="C18.K3"))
    return hs
