"""C06 — number-type conversion is exact, byte-order-correct and mode-independent."""
from engine.h4v import H

TYPES = [("UCHAR8", 3, 1), ("CHAR8", 4, 1), ("INT8", 20, 1), ("UINT8", 21, 1), ("INT16", 22, 2), ("UINT16", 23, 2),
         ("INT32", 24, 4), ("UINT32", 25, 4), ("FLOAT32", 5, 4), ("FLOAT64", 6, 8)]
FLAV = [("std", 0), ("native", 0x1000), ("litend", 0x4000)]

META = dict(
    bounds=["element count 1..3 (symbolic), strides (0,0) or each in [size,size+2] (symbolic), in-place or separate buffers (symbolic), "
            "both directions (symbolic), ALL bit patterns of every element (symbolic bytes)"],
    stubs=["error stack = codes only", "host byte order: little-endian x86-64 as built"],
    outside=["element counts > 3 (loops are uniform)", "mixed zero/non-zero strides", "Cray/VAX/Fujitsu converters (not built)"],
    manifest=dict(
        level="Bounded model checking (CBMC/SAT) of the real dfconv.c/dfkswap.c/dfknat.c: for every supported number type x {standard, native, little-endian}, "
              "one query decides for ALL bit patterns, element counts 1..3, stride combinations, in-place/out-of-place and both directions that the output is the exact "
              "byte permutation the flavour designates (big-endian image for standard types, MSB-first checked arithmetically for 16/32-bit), that gap/source bytes "
              "are untouched, and that to-file followed by from-file is the identity.",
        note="Trusted: CBMC 6.11 + MiniSat; host is little-endian. Element counts above 3 are outside the bound.",
        technique="CBMC bounded model checking of the real conversion kernels with fully symbolic element bytes"),
)

def plan(ctx, tier, seed):
    hs = []
    units = ["hdf/src/dfconv.c", "hdf/src/dfkswap.c", "hdf/src/dfknat.c"]
    for tn, code, sz in TYPES:
        for fn, fl in FLAV:
            d = {"NT": code, "FL": fl, "SZ": sz}
            if fl == 0 and sz in (2, 4) and tn.startswith(("INT", "UINT")):
                d["ARITH"] = 1
            if sz == 8:
                for n in (1, 3):
                    for ss, ds, ip in ((0, 0, 0), (0, 0, 1), (8, 8, 0), (9, 10, 0), (10, 8, 0), (10, 10, 1)):
                        dd = dict(d, FIX_N=n, FIX_SS=ss, FIX_DS=ds, FIX_INPLACE=ip)
                        hs.append(H("C06.K1.%s.%s.n%d.s%d_%d.ip%d" % (tn, fn, n, ss, ds, ip), "C06", src="harness/C06/k1_dfk.c", units=units,
                                    models=["herr"], defs=dd, unwind=3 * (sz + 2) + 2, kind="K", timeout=300,
                                    symbolic="direction, all source and destination bytes (geometry enumerated: n, strides, in-place)",
                                    bound="n in {1,3}, 6 stride/in-place combinations", group="C06.K1.%s.%s" % (tn, fn)))
                continue
            hs.append(H("C06.K1.%s.%s" % (tn, fn), "C06", src="harness/C06/k1_dfk.c", units=units, models=["herr"],
                        defs=d, unwind=3 * (sz + 2) + 2, kind="K", timeout=300,
                        symbolic="n,ss,ds,inplace,direction, %d source bytes, %d destination bytes" % (3 * (sz + 2), 3 * (sz + 2)),
                        bound="n<=3, stride<=size+2", group="C06.K1." + fn))
    return hs
