"""C09 — raster images and palettes round-trip for every region, interlace and type."""
import random
from engine.h4v import H, libhdf_units

META = dict(
    bounds=["S1: images <= 3x3, 1..3 components, uint8/int16, write region + optional second write, read region with strides <= 2, 3x3 interlace pairs, fill on/off, "
            "reopen yes/no, palette; all enumerated (curated + seed-derived); pixel components, fill value and palette entries symbolic",
            "K1: GRIil_convert on <=3x3x3 with symbolic pixels (geometry enumerated)"],
    stubs=["stdio = models/memio.c", "error stack = codes only", "malloc never fails", "sprintf model (E9)"],
    outside=["images > 3x3", "JPEG", "RLE/skphuff/deflate-compressed images (coders decided in C05; GRsetcompress plumbing not yet covered)", "chunked images"],
    manifest=dict(
        level="Bounded model checking (CBMC/SAT) of the whole real libhdf (mfgr.c over Vgroup/H layers) on memio: for each concrete geometry/interlace/fill/reopen skeleton the "
              "solver decides for ALL pixel component values that region and strided reads return the last written component (or the fill value for never-written pixels of a "
              "new image), in the requested interlace, that nothing beyond the requested region is written to the caller's buffer, and that palettes and the image description "
              "survive GRend/reopen.",
        note="Trusted: memio, codes-only error stack, H4_VERIF hook, sprintf model, CBMC 6.11. Geometry enumerated, not symbolic.",
        technique="CBMC bounded model checking of real mfgr.c (whole libhdf); symbolic pixels, concrete geometry"),
)

def inst(name, W, Hh, nc, es, wil, ril, w1, r1, fill=0, second=None, reopen=1, lut=0):
    d = {"W": W, "H": Hh, "NCOMP": nc, "WIL": wil, "RIL": ril, "FILL": fill, "REOPEN": reopen, "LUT": lut, "SECOND": 1 if second else 0,
         "W1SX": w1[0], "W1SY": w1[1], "W1TX": w1[2], "W1TY": w1[3], "W1CX": w1[4], "W1CY": w1[5],
         "R1SX": r1[0], "R1SY": r1[1], "R1TX": r1[2], "R1TY": r1[3], "R1CX": r1[4], "R1CY": r1[5], "MEMIO_DISK_SZ": 8192}
    if es == 2:
        d["NT"] = "DFNT_INT16"; d["ES"] = 2
    if second:
        d.update({"W2SX": second[0], "W2SY": second[1], "W2CX": second[2], "W2CY": second[3]})
    return H("C09.S1." + name, "C09", src="harness/C09/s1_gr.c", units=libhdf_units(), models=["memio", "herr", "memloops", "printf"], defs=d,
             unwind=5000, kind="S", timeout=1200, symbolic="pixel components, fill value, palette entries",
             bound="%dx%dx%d es=%d wil=%d ril=%d w=%s r=%s" % (W, Hh, nc, es, wil, ril, w1, r1), group="C09.S1", hang_is_violation=True)

def curated():
    S = []
    S.append(inst("full-pixel", 3, 2, 2, 1, 0, 0, (0, 0, 1, 1, 3, 2), (0, 0, 1, 1, 3, 2)))
    S.append(inst("il-line-to-comp", 3, 2, 3, 1, 1, 2, (0, 0, 1, 1, 3, 2), (0, 0, 1, 1, 3, 2), lut=1))
    S.append(inst("il-comp-to-line-int16", 2, 3, 2, 2, 2, 1, (0, 0, 1, 1, 2, 3), (0, 1, 1, 1, 2, 2)))
    S.append(inst("partial-fill", 3, 3, 2, 1, 0, 0, (1, 1, 1, 1, 2, 2), (0, 0, 1, 1, 3, 3), fill=1))
    S.append(inst("strided-read", 3, 3, 1, 1, 0, 0, (0, 0, 1, 1, 3, 3), (0, 0, 2, 2, 2, 2)))
    S.append(inst("strided-read-y", 3, 3, 2, 1, 0, 0, (0, 0, 1, 1, 3, 3), (0, 0, 1, 2, 3, 2)))
    S.append(inst("strided-read-x", 3, 3, 1, 1, 0, 1, (0, 0, 1, 1, 3, 3), (1, 0, 2, 1, 1, 3)))
    S.append(inst("strided-write-second", 3, 3, 2, 1, 0, 1, (0, 0, 2, 2, 2, 2), (0, 0, 1, 1, 3, 3), fill=1, second=(1, 0, 2, 2)))
    # first write to a NEW image sub-sampled in one direction only (fill lines / fill pixels between the written ones)
    S.append(inst("strided-first-write-y", 2, 3, 1, 1, 0, 0, (0, 0, 1, 2, 2, 2), (0, 0, 1, 1, 2, 3), fill=1))
    S.append(inst("strided-first-write-x", 3, 2, 2, 1, 0, 0, (0, 0, 2, 1, 2, 2), (0, 0, 1, 1, 3, 2), fill=1))
    S.append(inst("noreopen-subregion", 3, 3, 3, 1, 0, 2, (0, 0, 1, 1, 3, 3), (1, 1, 1, 1, 2, 2), reopen=0))
    return S

def rand(rng, i):
    W, Hh, nc = rng.randint(1, 3), rng.randint(1, 3), rng.randint(1, 3)
    es = rng.choice([1, 1, 2])
    def region(strided):
        tx = rng.choice([1, 2]) if strided else 1; ty = rng.choice([1, 2]) if strided else 1
        sx = rng.randint(0, W - 1); sy = rng.randint(0, Hh - 1)
        cx = rng.randint(1, (W - 1 - sx) // tx + 1); cy = rng.randint(1, (Hh - 1 - sy) // ty + 1)
        return (sx, sy, tx, ty, cx, cy)
    full = (0, 0, 1, 1, W, Hh)
    w1 = full if rng.random() < 0.5 else region(True)
    fill = 1 if w1 != full else rng.randint(0, 1)
    r1 = region(True) if fill or w1 == full else w1
    return inst("rand%d" % i, W, Hh, nc, es, rng.randint(0, 2), rng.randint(0, 2), w1, r1, fill=fill, reopen=rng.randint(0, 1), lut=rng.randint(0, 1))

def plan(ctx, tier, seed):
    hs = curated()
    rng = random.Random(900 + seed)
    for i in range(5 if tier == "quick" else 80):
        hs.append(rand(rng, i))
    return hs
