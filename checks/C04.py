"""C04 — storage layout and tuning knobs never change the data an application sees."""
import itertools
from engine.h4v import H, libhdf_units

META = dict(
    bounds=["K1: every array shape of rank <= 3 with extents <= 4 (quick: rank <= 2 all, rank 3 sampled), every chunk shape 1..extent per dimension (concrete loop), "
            "number-type sizes {1,2,4,8}; SYMBOLIC byte position in the element, transfer length 1..64 and bytes already done"],
    stubs=["K1: hchunks.c #included; DIM_REC filled with the formulas HMCcreate uses", "error stack = codes only"],
    outside=["extents > 4, rank > 3", "chunk cache / chunked element I/O at scenario level (open issue in DESIGN.md)", "SD-level chunking knobs"],
    manifest=dict(
        level="Bounded model checking (CBMC/SAT) of the real chunk arithmetic in hchunks.c: for every small array shape and every chunk shape (including shapes that do not "
              "divide the extent) the solver decides for ALL byte positions, transfer lengths and progress counters that seek->(chunk,position)->array->seek is the identity, "
              "that chunk numbers and in-chunk offsets are the row-major ones and in range, and that the per-chunk transfer size makes progress, never exceeds the request "
              "and never crosses the end of a chunk row or the array row (ghost area).",
        note="Trusted: DIM_REC initialisation formulas copied from HMCcreate (precondition), CBMC 6.11. Shapes are enumerated exhaustively for the stated small extents; positions are symbolic.",
        technique="CBMC bounded model checking of real hchunks.c arithmetic kernels; symbolic positions, exhaustively enumerated small shapes"),
)

def plan(ctx, tier, seed):
    hs = []
    shapes = []
    for nd in (1, 2, 3):
        for dims in itertools.product(range(1, 5), repeat=nd):
            shapes.append(dims)
    if tier == "quick":
        shapes = [s for s in shapes if len(s) < 3 or s in ((2, 3, 2), (4, 4, 4), (3, 1, 4), (1, 4, 3), (4, 3, 2), (3, 4, 1))]
    for dims in shapes:
        nts = (1, 4) if tier == "quick" else (1, 2, 4, 8)
        for nt in nts:
            d = {"NDIMS": len(dims), "D0": dims[0], "D1": dims[1] if len(dims) > 1 else 1, "D2": dims[2] if len(dims) > 2 else 1, "NT": nt}
            hs.append(H("C04.K1.%s.nt%d" % ("x".join(map(str, dims)), nt), "C04", src="harness/C04/k1_chunkmath.c",
                        units=[u for u in libhdf_units() if not u.endswith("hchunks.c")], models=["memio", "herr", "memloops", "printf"], defs=d,
                        unwind=8, kind="K", timeout=900, field_sens=64, symbolic="byte position, transfer length, bytes done",
                        bound="shape %s, all chunk shapes, nt %d" % (dims, nt), group="C04.K1"))
    # chunked element vs contiguous twin (whole library)
    S = [("3x3c2x2", 3, 3, 2, 2, 1, (1, 5), (6, 3), (0, 9), 1), ("4x5c2x3.cross", 4, 5, 2, 3, 1, (3, 4), (0, 0), (2, 7), 0),
         ("2x4c2x3.nt2", 2, 4, 2, 3, 2, (2, 10), (0, 0), (0, 16), 1), ("3x4c1x3.cache1", 3, 4, 1, 3, 1, (0, 12), (5, 4), (3, 8), 0)]
    for nm, d0, d1, c0, c1, nts, w1, w2, r1, reopen in S:
        d = {"D0": d0, "D1": d1, "C0": c0, "C1": c1, "NTS": nts, "W1P": w1[0], "W1N": w1[1], "W2P": w2[0], "W2N": w2[1], "R1P": r1[0], "R1N": r1[1],
             "REOPEN": reopen, "MEMIO_DISK_SZ": 8192}
        if "cache1" in nm:
            d["MAXCACHE"] = 1
        hs.append(H("C04.S1." + nm, "C04", src="harness/C04/s1_chunked.c", units=libhdf_units(), models=["memio", "herr", "memloops", "printf"], defs=d,
                    unwind=5000, kind="S", timeout=1800, symbolic="data bytes, fill value", bound="%dx%d in %dx%d chunks" % (d0, d1, c0, c1), group="C04.S1",
                    hang_is_violation=True))
    return hs
