"""C13 — handles are safe: valid ones never alias, stale ones are always rejected."""
import random
from engine.h4v import H, libhdf_units
from checks.hgen import *

META = dict(
    bounds=["K1: 7 objects in 2 groups, hash sizes 1/2/4, symbolic lookup order (6), symbolic removals (2), one arbitrary 32-bit id",
            "S1: concrete call skeletons of <= 14 calls over H/V/VS ids incl. double release, use after release, wrong-kind ids; payload symbolic"],
    stubs=["K1: unmodified atom.c (XOR cache swap), objects are opaque pointers", "S1: memio, codes-only error stack, H4_VERIF hook, malloc never fails"],
    outside=["more than 2 files", "SD/GR/AN ids at scenario level (GR/AN ids: see C09/C11)"],
    manifest=dict(
        level="Bounded model checking (CBMC/SAT): (K1) the unmodified atom.c with the real XOR cache swap, for every lookup order, every choice of released ids and every 32-bit "
              "id value: valid ids return their own object, released/never-issued ids return NULL also while still cached, double release fails, destroying one group "
              "leaves the other intact; (S1) whole real libhdf on memio: skeletons with stale/foreign/double-released ids and Hclose with attached access ids, with every "
              "CBMC pointer check (deallocated/dead object, bounds) on the executed paths.",
        note="Trusted: CBMC 6.11 pointer model (XOR on pointer bit patterns is exact for never-dereferenced opaque pointers), memio, codes-only error stack.",
        technique="CBMC bounded model checking of real atom.c (unhooked) and of whole libhdf handle paths; symbolic ids/orders"),
)

def plan(ctx, tier, seed):
    hs = []
    for hsz, var, rm1 in [(h, 0, 0) for h in (1, 2, 4)] + [(h, 1, r) for h in (1, 2) for r in (0, 3, 6)]:
        hs.append(H("C13.K1.atoms.hs%d.v%d.r%d" % (hsz, var, rm1), "C13", src="harness/C13/k1_atoms.c", units=[], models=["herr"], defs={"HS": hsz, "VAR": var, "RM1": rm1},
                    unwind=12, kind="K", timeout=600, field_sens=64, symbolic="lookup order, removed ids, arbitrary id", bound="7 objects, 2 groups", group="C13.K1"))
    for mode, order in ((0, 0), (1, 0), (1, 1), (2, 0), (3, 0), (4, 0)):
        hs.append(H("C13.S1.m%d.o%d" % (mode, order), "C13", src="harness/C13/s1_handles.c", units=libhdf_units(),
                    models=["memio", "herr", "memloops", "printf"], defs={"MODE": mode, "ORDER": order, "MEMIO_DISK_SZ": 4096}, unwind=5000, kind="S",
                    timeout=900, symbolic="8 payload bytes, one arbitrary 32-bit id", bound="concrete call skeleton", group="C13.S1", hang_is_violation=True))
    return hs
