"""C12 — the tag/ref directory is a faithful persistent map; new refs are never in use."""
import random
from checks.hgen import *

META = dict(
    bounds=["S: concrete skeletons of <= 20 calls over 4 tag/ref pairs (2 tags, one special variant), ndds in {4,5,16}, cache on/off/toggled; payload symbolic",
            "K: see harness/C12/*.c"],
    stubs=["stdio = models/memio.c", "error stack = codes only", "malloc never fails", "atom cache swap via H4_VERIF hook"],
    outside=["more than 4 live application descriptors per skeleton", "65535-reference exhaustion as a history (kernel only)"],
    manifest=dict(
        level="Bounded model checking (CBMC/SAT) of the real libhdf: (S) for each concrete create/delete/duplicate/reuse skeleton (DD-block sizes 4/5/16 so that "
              "several descriptor blocks are needed, descriptor cache on/off/toggled, close+reopen) the directory reported by Hexist/Hlength/Hnumber/Hfind "
              "(wildcards, both directions) and Htagnewref is compared with a reference map for all payloads, with every CBMC memory-safety check in the "
              "library; (K) kernel harnesses decide the DD scan/count routines and the bit-vector/dynarray/tbbt containers for symbolic contents.",
        note="Trusted: memio stdio contract, codes-only error stack, H4_VERIF hook, CBMC 6.11. Skeletons are enumerated (curated + VERIF_SEED-derived), not symbolic.",
        technique="CBMC bounded model checking of real hfiledd.c/hfile.c (whole libhdf linked); symbolic payload/DD contents; native ASan replay"),
)

def curated():
    S = []
    S.append(("multi-block", [CREATE(4), PUT(0, 3), PUT(1, 2), PUT(2, 4), PUT(3, 1), CHECKALL(), NEWREF(0), DELDD(1), CHECKALL(), NEWREF(0),
                              CLOSE(), OPEN(DFACC_RDWR), CHECKALL(), PUT(1, 2), CHECKALL(), CLOSE(), OPEN(DFACC_READ), CHECKALL(), CLOSE()]))
    S.append(("nocache-delete", [CREATE(5), CACHE(0), PUT(0, 3), PUT(1, 2), PUT(2, 2), DELDD(1), CHECKALL(), CLOSE(), OPEN(DFACC_READ), CHECKALL(), CLOSE()]))
    S.append(("toggle-cache", [CREATE(4), PUT(0, 2), CACHE(0), PUT(1, 2), DELDD(0), CACHE(1), PUT(2, 3), DUPDD(3, 1), CHECKALL(), CLOSE(),
                               OPEN(DFACC_RDWR), CHECKALL(), DELDD(3), CHECKALL(), CLOSE(), OPEN(DFACC_READ), CHECKALL(), CLOSE()]))
    S.append(("special-variant", [CREATE(5), PUT(0, 2), HLCREATE(1, 0, 3, 1), WRITE(0, 5), ENDACC(0), PUT(2, 1), CHECKALL(), DELDD(0), CHECKALL(),
                                  CLOSE(), OPEN(DFACC_RDWR), CHECKALL(), NEWREF(0), DELDD(1), CHECKALL(), CLOSE(), OPEN(DFACC_READ), CHECKALL(), CLOSE()]))
    S.append(("reuse", [CREATE(16), PUT(0, 4), PUT(1, 2), REUSE(0), PUT(0, 6), CHECKALL(), CLOSE(), OPEN(DFACC_RDWR), CHECKALL(), REUSE(1), PUT(1, 5),
                        CHECKALL(), CLOSE(), OPEN(DFACC_READ), CHECKALL(), CLOSE()]))
    S.append(("nocache-newblock", [CREATE(4), CACHE(0), PUT(0, 3), PUT(1, 2), PUT(2, 2), PUT(3, 1), CHECKALL(), CLOSE(), OPEN(DFACC_RDWR), CHECKALL(), NEWREF(0), CLOSE()]))
    S.append(("dup-delete-orig", [CREATE(4), PUT(0, 5), DUPDD(3, 0), DELDD(0), CHECKALL(), GET(3), CLOSE(), OPEN(DFACC_READ), CHECKALL(), GET(3), CLOSE()]))
    return S

def wrapped():
    # reference counter at its maximum (an object with ref 65535) and refs out of ascending order in the directory
    return ("wrapped-newref", [CREATE(4), PUT(0, 2), PUT(1, 2), PUT(2, 2), HNEWREF(), NEWREF(0), DELDD(1), HNEWREF(), CHECKALL(), CLOSE(), OPEN(DFACC_RDWR), HNEWREF(), CHECKALL(), CLOSE()],
            "#define H4V_TAGS {1000, 1000, 1001, 1000}\n#define H4V_REFS {3, 2, 65535, 9}")

def random_skeleton(rng):
    ops = [CREATE(rng.choice([4, 5, 16]))]
    live = set()
    for step in range(rng.randint(5, 8)):
        r = rng.random()
        if r < 0.15:
            ops.append(CACHE(rng.choice([0, 1])))
        elif r < 0.55 or not live:
            cand = [e for e in range(4) if e not in live]
            if cand:
                e = rng.choice(cand); ops.append(PUT(e, rng.randint(1, 4))); live.add(e)
        elif r < 0.8:
            e = rng.choice(sorted(live)); ops.append(DELDD(e)); live.discard(e)
        elif r < 0.9:
            ops.append(NEWREF(rng.choice([0, 2])))
        else:
            ops += [CLOSE(), OPEN(DFACC_RDWR)]
        if rng.random() < 0.4:
            ops.append(CHECKALL())
    ops += [CHECKALL(), CLOSE(), OPEN(DFACC_READ), CHECKALL(), CLOSE()]
    return ops

def plan(ctx, tier, seed):
    hs = [scenario("C12.S1." + nm, "C12", ops) for nm, ops in curated()]
    nm, ops, extra = wrapped()
    hs.append(scenario("C12.S1." + nm, "C12", ops, extra=extra))
    rng = random.Random(1200 + seed)
    for i in range(4 if tier == "quick" else 60):
        hs.append(scenario("C12.S1.rand%d" % i, "C12", random_skeleton(rng), group="C12.S1.rand"))
    return hs
