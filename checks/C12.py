"""C12 — the tag/ref directory is a faithful persistent map; new refs are never in use."""
import random
from checks.hgen import *

META = dict(
    bounds=["S: concrete skeletons of <= 20 calls over 4 tag/ref pairs (2 tags, one special variant), ndds in {4,5,16}, cache on/off/toggled; payload symbolic",
            "K1 (harness/C12/k1_ddsearch.c): 2 descriptor blocks of 3+2 entries with arbitrary 16-bit tags/refs (empty slots included); Hnewref for every counter value "
            "0..65535 (wrapped branch included); HTIfind_dd for every search tag/ref with at least one wildcard, cursor position (6) and direction (2) enumerated"],
    stubs=["stdio = models/memio.c", "error stack = codes only", "malloc never fails", "atom cache swap via H4_VERIF hook"],
    outside=["more than 4 live application descriptors per skeleton", "an object at ref 65535 at scenario level (the ref->descriptor array of 65536 entries does not finish; wrapped allocator decided by K1 from a symbolic list)", "all 65535 references in use (0 returned)"],
    manifest=dict(
        level="Bounded model checking (CBMC/SAT) of the real libhdf: (S) for each concrete create/delete/duplicate/reuse skeleton (DD-block sizes 4/5/16 so that "
              "several descriptor blocks are needed, descriptor cache on/off/toggled, close+reopen) the directory reported by Hexist/Hlength/Hnumber/Hfind "
              "(wildcards, both directions) and Htagnewref is compared with a reference map for all payloads, with every CBMC memory-safety check in the "
              "library; (K1) real Hnewref and HTIfind_dd over a symbolic descriptor list: the issued reference is unused file-wide for every counter value incl. the wrapped "
              "branch (smallest free reference), and every wildcard search returns the first live match in search order or fails exactly when there is none.",
        note="Trusted: memio stdio contract, codes-only error stack, H4_VERIF hook, CBMC 6.11. Skeletons are enumerated (curated + VERIF_SEED-derived), not symbolic.",
        technique="CBMC bounded model checking of real hfiledd.c/hfile.c (whole libhdf linked); symbolic payload/DD contents; native ASan replay"),
)

def curated():
    S = []
    S.append(("multi-block", [CREATE(4), PUT(0, 3), PUT(1, 2), PUT(2, 4), PUT(3, 1), CHECKALL(), NEWREF(0), DELDD(1), CHECKALL(), NEWREF(0),
                              CLOSE(), OPEN(DFACC_RDWR), CHECKALL(), PUT(1, 2), CHECKALL(), CLOSE(), OPEN(DFACC_READ), CHECKALL(), CLOSE()]))
    S.append(("nocache-delete", [CREATE(5), CACHE(0), PUT(0, 3), PUT(1, 2), PUT(2, 2), DELDD(1), CHECKALL(), CLOSE(), OPEN(DFACC_READ), CHECKALL(), CLOSE()]))
    S.append(("toggle-cache", [CREATE(4), PUT(0, 2), CACHE(0), PUT(1, 2), DELDD(0), CACHE(1), PUT(2, 3), DUPDD(3, 1), CHECKALL(), CLOSE(),
                               OPEN(DFACC_RDWR), CHECKALL(), DELDD(3), CHECKALL(), CLOSE(), OPEN(DFACC_READ), CHECKALL(), CLOSE()]))
    S.append(("special-variant", [CREATE(5), PUT(0, 2), HLCREATE(1, 0, 3, 1), WRITE(0, 5), ENDACC(0), PUT(2, 1), CHECKALL(), DELDD(0), CHECKALL(),
                                  CLOSE(), OPEN(DFACC_RDWR), CHECKALL(), NEWREF(0), DELDD(1), CHECKALL(), CLOSE(), OPEN(DFACC_READ), CHECKALL(), CLOSE()]))
    S.append(("reuse", [CREATE(16), PUT(0, 4), PUT(1, 2), REUSE(0), PUT(0, 6), CHECKALL(), CLOSE(), OPEN(DFACC_RDWR), CHECKALL(), REUSE(1), PUT(1, 5),
                        CHECKALL(), CLOSE(), OPEN(DFACC_READ), CHECKALL(), CLOSE()]))
    S.append(("nocache-newblock", [CREATE(4), CACHE(0), PUT(0, 3), PUT(1, 2), PUT(2, 2), PUT(3, 1), CHECKALL(), CLOSE(), OPEN(DFACC_RDWR), CHECKALL(), NEWREF(0), CLOSE()]))
    S.append(("dup-delete-orig", [CREATE(4), PUT(0, 5), DUPDD(3, 0), DELDD(0), CHECKALL(), GET(3), CLOSE(), OPEN(DFACC_READ), CHECKALL(), GET(3), CLOSE()]))
    return S

def dup_high():
    # a duplicate created under a reference ABOVE the file's reference counter, then the general allocator is asked for new references
    # (the whole-library scenario with an object at ref 65535 does not finish: the per-tag ref->descriptor array grows to 65536 entries;
    #  the wrapped counter is decided by kernel K1.newref instead)
    return ("dup-high-newref", [CREATE(16), PUT(0, 2), DUPDD(3, 0), HNEWREF(), HNEWREF(), HNEWREF(), CHECKALL(), CLOSE(), OPEN(DFACC_RDWR), HNEWREF(), CHECKALL(), CLOSE()],
            "#define H4V_TAGS {1000, 1000, 1001, 1000}\n#define H4V_REFS {1, 2, 1, 3}")

def random_skeleton(rng):
    ops = [CREATE(rng.choice([4, 5, 16]))]
    live = set()
    for step in range(rng.randint(5, 8)):
        r = rng.random()
        if r < 0.15:
            ops.append(CACHE(rng.choice([0, 1])))
        elif r < 0.55 or not live:
            cand = [e for e in range(4) if e not in live]
            if cand:
                e = rng.choice(cand); ops.append(PUT(e, rng.randint(1, 4))); live.add(e)
        elif r < 0.8:
            e = rng.choice(sorted(live)); ops.append(DELDD(e)); live.discard(e)
        elif r < 0.9:
            ops.append(NEWREF(rng.choice([0, 2])))
        else:
            ops += [CLOSE(), OPEN(DFACC_RDWR)]
        if rng.random() < 0.4:
            ops.append(CHECKALL())
    ops += [CHECKALL(), CLOSE(), OPEN(DFACC_READ), CHECKALL(), CLOSE()]
    return ops

def kernels():
    units = [u for u in libhdf_units() if not u.endswith("/hfiledd.c")]
    hs = []
    inst = [(0, "newref", 0, 0)] + [(1, "find.c%d.d%d" % (c, d), c, d) for c in range(6) for d in (0, 1)]
    for mode, nm, cur, dr in inst:
        hs.append(H("C12.K1." + nm, "C12", src="harness/C12/k1_ddsearch.c", units=units, models=["memio", "herr", "memloops", "printf"], defs={"MODE": mode, "CUR": cur, "DIR": dr},
                    unwind=8, kind="K", timeout=600, field_sens=64, symbolic="5 descriptors (tag, ref arbitrary 16-bit), reference counter, search tag/ref",
                    bound="2 descriptor blocks of 3 + 2 entries; cursor position and direction enumerated", group="C12.K1"))
    return hs

def plan(ctx, tier, seed):
    hs = kernels() + [scenario("C12.S1." + nm, "C12", ops) for nm, ops in curated()]
    nm, ops, extra = dup_high()
    hs.append(scenario("C12.S1." + nm, "C12", ops, extra=extra))
    rng = random.Random(1200 + seed)
    for i in range(4 if tier == "quick" else 60):
        hs.append(scenario("C12.S1.rand%d" % i, "C12", random_skeleton(rng), group="C12.S1.rand"))
    return hs
