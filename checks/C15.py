"""C15 — all interfaces agree on the content of the same objects."""
import os
from engine.h4v import H, libhdf_units, libmfhdf_units

META = dict(
    bounds=["S1: ordered interface pairs inside hdf/src on a 3x2 image: DFR8(+palette)->GR, GR->DFR8, DF24(il 0..2)->GR(il 0..2), GR(il)->DF24(reqil), DFSD -> SD (S2: 2x3 dataset, unsigned and little-endian types), DFAN->AN and AN->DFAN (second object with another ref, or with the SAME ref and another tag); GR->DFR8 / GR->DF24 are not registered (see plan()); "
            "all pixel/palette/description bytes symbolic"],
    stubs=["stdio = models/memio.c", "error stack = codes only", "malloc never fails", "sprintf model (E9)"],
    outside=["SD -> DFSD and netCDF-style pairs (mfhdf whole stack)", "JPEG/IMCOMP", "the checked-in legacy files (fully concrete: nothing for a solver to decide)"],
    manifest=dict(
        level="Bounded model checking (CBMC/SAT) of the whole real libhdf on memio: for each ordered pair (write interface, read interface) over 8-bit rasters with palette, "
              "24-bit rasters in the three interlaces, and object annotations, the solver decides for ALL pixel/palette/text bytes that dimensions, types, component order "
              "and values seen through the reading interface equal what the writing interface stored.",
        note="Trusted: memio, codes-only error stack, H4_VERIF hook, CBMC 6.11. SD-side pairs are not decided by this check.",
        technique="CBMC bounded model checking of real dfr8.c/df24.c/dfgr.c/dfp.c/dfan.c/mfgr.c/mfan.c (whole libhdf); symbolic content, concrete geometry"),
)

def plan(ctx, tier, seed):
    hs = []
    # registered pairs: DFR8(+palette)->GR, DF24->GR, DFAN<->AN.  GR->DFR8/DF24 (modes 1, 3) are not registered: the
    # single-file raster interfaces only accept RIGs whose number type is DFNT_UCHAR8, which GR images created with
    # DFNT_UINT8 do not have (documented limitation of the old interfaces, see DESIGN.md 9.3).
    combos = [(0, 0, 0), (5, 0, 0)] + ([(4, 0, 0), (6, 0, 0)] if tier != "quick" else [])  # DFAN<->AN (modes 4, 6: ~10 min per instance, one query each) run in the thorough tier only
    ils = [(0, 0), (0, 1), (0, 2), (1, 2), (2, 0)] if tier == "quick" else [(a, b) for a in range(3) for b in range(3)]
    combos += [(2, a, b) for a, b in ils]
    for mode, il, ril in combos:
        hs.append(H("C15.S1.m%d.il%d.r%d" % (mode, il, ril), "C15", src="harness/C15/s1_cross.c", units=libhdf_units(), models=["memio", "herr", "memloops", "printf"],
                    defs={"MODE": mode, "IL": il, "RIL": ril, "MEMIO_DISK_SZ": 8192}, unwind=5000, kind="S", timeout=1500, symbolic="pixels, palette, description text",
                    bound="3x2 image", group="C15.S1.m%d" % mode, hang_is_violation=True))
    if True:  # DFSD -> SD: a dataset written by the single-file interface read through the mfhdf import path (hdfsds.c)
        lower = ["mfhdf/src/putget.c", "mfhdf/src/var.c", "mfhdf/src/array.c", "mfhdf/src/putgetg.c", "mfhdf/src/mfsd.c", "mfhdf/src/cdf.c", "mfhdf/src/attr.c", "mfhdf/src/dim.c"]
        for tn, code, es in (("u16", "DFNT_UINT16", 2), ("li16", "(DFNT_LITEND|DFNT_INT16)", 2)) + ((("u8", "DFNT_UINT8", 1), ("f32", "DFNT_FLOAT32", 4)) if tier != "quick" else ()):
            hs.append(H("C15.S2.dfsd2sd." + tn, "C15", src="harness/C15/s2_dfsd_sd.c", units=libhdf_units() + libmfhdf_units(), models=["memio", "herr", "memloops", "printf"],
                        defs={"NT": code, "ES": es, "MEMIO_DISK_SZ": 4096}, unwind=5000, kind="S", timeout=2400, mf=True, lower=lower, symbolic="all element bytes",
                        bound="2x3 dataset", group="C15.S2", hang_is_violation=True))
    return hs
