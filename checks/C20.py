"""C20 — format limits are enforced cleanly: no wrap-around, no over-long objects."""
from engine.h4v import H, libhdf_units

META = dict(
    bounds=["K3: Vdata record size: two user-defined uint8 fields with symbolic orders 1..65535, VSsetfields of one or both", "K2: Vgroup member count at 0, 1, 65534, 65535 (tag/ref symbolic)", "K1: full int32 range for end-of-file offset, block size, element length and seek position; transfers 1..4 bytes"],
    stubs=["stdio = models/memio.c with a sparse tail (bytes beyond the model disk are not stored)", "error stack = codes only", "malloc never fails"],
    outside=["65536 references per tag as a history", "257 fields at scenario level", "field sizes other than 1 byte in K3"],
    manifest=dict(
        level="Bounded model checking (CBMC/SAT) of the real libhdf with full-width symbolic integers: end-of-file offset, reservation sizes, element lengths and "
              "seek positions range over all int32 values from states reachable by reserved (never written) elements; the solver decides that each request either "
              "fails or leaves offsets/lengths/positions inside [0,2^31-1] with no signed overflow (CBMC overflow checks on the library code itself).",
        note="Trusted: memio (sparse tail), codes-only error stack, CBMC 6.11. File/access records are created through the API and then moved to a symbolic valid state.",
        technique="CBMC bounded model checking of real hfile.c/hfiledd.c/vgp.c/vsfld.c limit arithmetic with full-width symbolic integers"),
)

def plan(ctx, tier, seed):
    hs = []
    for mode, nm in ((0, "getdiskblock"), (1, "startwrite"), (2, "seekwrite")):
        hs.append(H("C20.K1." + nm, "C20", src="harness/C20/k1_eof.c", units=libhdf_units(), models=["memio", "herr", "memloops", "printf"],
                    defs={"MODE": mode, "MEMIO_DISK_SZ": 1024}, unwind=5000, kind="K", timeout=600,
                    symbolic="end_off, block size, length, position over all int32; cache flag; payload", bound="transfers <= 4 bytes"))
    for n0 in (0, 1, 65534, 65535):
        hs.append(H("C20.K2.members.n%d" % n0, "C20", src="harness/C20/k2_counts.c", units=libhdf_units(), models=["memio", "herr", "memloops", "printf"], defs={"N0": n0, "MSIZE": 65600},
                    unwind=4, kind="K", timeout=600, field_sens=16, symbolic="tag, ref", bound="member count %d (limits enumerated)" % n0, group="C20.K2"))
    for nf, fields in ((2, "fa,fb"), (1, "fa")):
        hs.append(H("C20.K3.recsize.f%d" % nf, "C20", src="harness/C20/k3_recsize.c", units=libhdf_units(), models=["memio", "herr", "memloops", "printf"],
                    defs={"NF": nf, "MEMIO_DISK_SZ": 2048}, unwind=5000, kind="K", timeout=900,
                    symbolic="orders n1, n2 of two uint8 fields over 1..65535", bound="two user-defined fields; field list enumerated", group="C20.K3"))
    for a, b in ((32768, 32768), (65535, 1), (65534, 1), (40000, 40000)):
        hs.append(H("C20.K3.recsize.usable.%d_%d" % (a, b), "C20", src="harness/C20/k3_recsize.c", units=libhdf_units(), models=["memio", "herr", "memloops", "printf"],
                    defs={"NF": 2, "MEMIO_DISK_SZ": 2048, "N1C": a, "N2C": b}, unwind=5000, kind="K", timeout=900,
                    symbolic="-", bound="concrete boundary pair of orders; library usable after the refusal", group="C20.K3"))
    return hs
