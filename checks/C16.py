"""C16 — I/O failures are reported, never silently swallowed, never corrupt memory."""
import re
from engine.h4v import H, libhdf_units, native_replay

META = dict(
    bounds=["S1: 4 workloads (H write, Vdata+Vgroup write, read, update) x fault index k over the stdio calls of the fault-free run (quick: every 5th k offset by VERIF_SEED; "
            "thorough: every k) x {single, sticky} x short-count {0, n-1}; payload symbolic"],
    stubs=["stdio = models/memio.c with a failing call index (fopen/fread/fwrite/fseek/fflush/fclose fail; short counts)", "error stack = codes only", "malloc never fails"],
    outside=["SD/GR/AN workloads", "allocation failure", "'all calls succeeded => bytes identical' is asserted in its contrapositive form (a failed stdio call => some API failure)"],
    manifest=dict(
        level="Fault enumeration decided by bounded model checking (CBMC/SAT) of the whole real libhdf on memio: for each workload and each index k of a stdio call (single or "
              "sticky failure, zero or short transfer) one query decides for ALL payloads that some API call up to the final close returns its failure value, that every "
              "pointer dereference on the error paths is valid, and (unwinding assertions) that no path hangs.",
        note="Trusted: memio fault model, codes-only error stack, CBMC 6.11. The fault index is enumerated, not symbolic (a symbolic k merges the post-fault heap into every later call).",
        technique="CBMC bounded model checking of real libhdf under an enumerated stdio fault index; symbolic payload"),
)

def mk(wl, k, sticky, short):
    return H("C16.S1.w%d.k%d.s%d.h%d" % (wl, k, sticky, short), "C16", src="harness/C16/s1_fault.c", units=libhdf_units(),
             models=["memio", "herr", "memloops", "printf"], defs={"WL": wl, "K": k, "STICKY": sticky, "SHORT": short, "MEMIO_DISK_SZ": 8192},
             unwind=5000, kind="S", timeout=600, symbolic="24 payload bytes", bound="fault index k=%d (%s), short amount %d" % (k, "sticky" if sticky else "single", short),
             group="C16.S1.w%d" % wl, hang_is_violation=True)

def ncalls(ctx, wl):
    """fault-free native run: number of stdio calls and, per call, the API call (source line) issuing it"""
    h = mk(wl, -1, 0, 0)
    rep, out = native_replay(ctx, h, {})
    m = re.search(r"H4V-NCALLS (\d+)", out or "")
    n = int(m.group(1)) if m else 60
    m = re.search(r"H4V-PHASES((?: \d+)*)", out or "")
    phases = [int(x) for x in m.group(1).split()] if m else []
    return n, phases

def plan(ctx, tier, seed):
    hs = []
    for wl in (0, 1, 10, 11):
        n, phases = ncalls(ctx, wl)
        step = 5 if tier == "quick" else 1
        ks = set(range((seed % step), n, step))
        # the flush at the final close (and at Hsync) is where swallowed failures hide: every call of the last API call
        # and of the largest other flush phase is always included
        if phases:
            tail = sorted(set(phases))[-3:]  # the last three API calls of the workload (sync / last edits / close)
            ks |= {k for k, ph in enumerate(phases) if ph in tail}
        ks = sorted(ks)
        for k in ks:
            variants = [(0, 0)] if tier == "quick" else [(0, 0), (1, 0), (0, 3)]
            if tier == "quick" and k % 10 < 5:
                variants = [(1, 0)] if (k // 5) % 2 else [(0, 3)]
            for sticky, short in variants:
                hs.append(mk(wl, k, sticky, short))
        hs.append(mk(wl, n + 5, 0, 0))  # beyond the run: fault-free sanity
    return hs
