"""C02 — every file written is a well-formed, independently readable HDF4 file."""
import random
from checks.hgen import *
from checks import C01, C12

META = dict(
    bounds=["S1: the H-level skeletons of C01 and C12 (contiguous, promoted, linked-block, external, dup/delete, several DD blocks, cache on/off); after every Hclose the "
            "file image is validated and read by oracle/h4spec.h; payload symbolic"],
    stubs=["stdio = models/memio.c", "error stack = codes only", "malloc never fails", "oracle/h4spec.h (independent reader written from the format description)"],
    outside=["compressed and chunked special elements, Vdata/Vgroup records (not yet decoded by the independent reader)", "SD files",
             "raw-location queries (HDgetdatainfo family)"],
    manifest=dict(
        level="Bounded model checking (CBMC/SAT) of the whole real libhdf on memio plus an independent format reader (oracle/h4spec.h, no shared code): after every close of "
              "each skeleton the solver decides for all payloads that the bytes on disk have the HDF4 magic, an acyclic in-bounds DD-block chain, no duplicate tag/ref, "
              "offsets/lengths inside the file, no overlap of live elements or DD blocks (aliases excepted), consistent linked-block and external headers/tables, and that "
              "the independent reader recovers exactly the bytes written.",
        note="Trusted: memio, oracle/h4spec.h, codes-only error stack, CBMC 6.11. Covers H-level objects; V/SD/GR/AN records and the raw-location queries are outside this check.",
        technique="CBMC bounded model checking of real libhdf + independent format reader over the in-memory file image; symbolic payload"),
)

def plan(ctx, tier, seed):
    hs = []
    for nm, ops in C01.curated():
        if nm in ("lb-seekpast", "lb-eof2", "two-aids", "lb-eof"):
            continue
        hs.append(scenario("C02.S1.c01." + nm, "C02", ops, disk=8192 if nm in ("promote", "reopen-append", "gap") else 4096, defs={"H4V_C02": 1}, group="C02.S1"))
    for nm, ops in C12.curated():
        hs.append(scenario("C02.S1.c12." + nm, "C02", ops, defs={"H4V_C02": 1}, group="C02.S1"))
    if tier != "quick":
        rng = random.Random(200 + seed)
        for i in range(40):
            hs.append(scenario("C02.S1.rand%d" % i, "C02", C01.random_skeleton(rng), disk=8192, defs={"H4V_C02": 1}, group="C02.S1.rand"))
    return hs
