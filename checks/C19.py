"""C19 — inspection tools report what is actually in the file."""
from engine.h4v import H, REPO, libhdf_units, libmfhdf_units

TYPES = [("INT8", 20, 1), ("UINT8", 21, 1), ("CHAR8", 4, 1), ("INT16", 22, 2), ("UINT16", 23, 2), ("INT32", 24, 4), ("UINT32", 25, 4), ("FLOAT32", 5, 4), ("FLOAT64", 6, 8)]

META = dict(
    bounds=["K1: hdiff's array_diff on 2 elements per buffer, every number type hdiff handles, zero tolerances, all bit patterns symbolic (NaN/inf excluded for floats)",
            "S2: hdiff's V-interface passes on two memio files of identical structure (top-level vgroup with 1 (quick) or 1-2 (thorough) Vdata members + one lone Vdata, 2 records each), "
            "all record bytes of both files symbolic"],
    stubs=["printf = CBMC built-in (output not inspected)", "getenv returns NULL (DEBUG unset)",
           "S2: Vlone/VSlone replaced for hdiff_list.c by a structural model (their two passes over a 65536-entry table do not finish under symbolic execution)", "S2: memio, codes-only error stack"],
    outside=["hdp dump formatting, hdfimport text/float parsing (fscanf/printf-driven: no bounded encoding within reach)", "hdiff SD/GR traversal and the match() step between the two object tables (hdiff_list opens the SD interface on every file)",
             "buffers longer than 2 elements (loop body is uniform)"],
    manifest=dict(
        level="Bounded model checking (CBMC/SAT) of the real hdiff comparison kernel (mfhdf/hdiff/hdiff_array.c): for every number type and ALL pairs of element values the solver "
              "decides that array_diff with zero tolerances returns 0 exactly when the buffers are equal, counts each differing element once, and is symmetric in whether "
              "differences are found; (S2) real hdiff_list.c / hdiff_vs.c / hdiff_table.c over the whole libhdf on memio: every Vdata (inside a top-level vgroup or lone) and the "
              "vgroup are in hdiff's object table exactly once, diff_vs reports a difference exactly when a record byte differs between the two files, and a file compared with "
              "itself (second open of the same path) shows none.",
        note="Trusted: CBMC 6.11 floating-point encoding, printf ignored. Decided: element comparison, and listing + record comparison for Vdatas; hdp and hdfimport clauses, SDS/GR traversal and attribute comparison are not.",
        technique="CBMC bounded model checking of real hdiff_array.c (symbolic elements) and of hdiff_list.c/hdiff_vs.c over whole libhdf on an in-memory stdio model (symbolic record bytes)"),
)

def plan(ctx, tier, seed):
    hs = []
    for tn, code, sz in TYPES:
        hs.append(H("C19.K1.arraydiff." + tn, "C19", src="harness/C19/k1_arraydiff.c", units=["mfhdf/hdiff/hdiff_array.c"], models=["herr", "memloops"],
                    defs={"TYPE": code, "SZ": sz, "N": 2}, unwind=20, kind="K", timeout=900, mf=True, field_sens=64,
                    extra_cc=["-I" + REPO + "/mfhdf/hdiff"], symbolic="2x2 elements, all bit patterns", bound="2 elements per buffer", group="C19.K1"))
    hd = ["mfhdf/hdiff/hdiff_vs.c", "mfhdf/hdiff/hdiff_table.c", "mfhdf/hdiff/hdiff_misc.c", "mfhdf/hdiff/hdiff_array.c", "mfhdf/hdiff/hdiff_dim.c",
          "mfhdf/hdiff/hdiff_mattbl.c", "mfhdf/hdiff/hdiff_sds.c", "mfhdf/hdiff/hdiff_gr.c", "mfhdf/hdiff/hdiff_gattr.c"]
    for nmem in ((1,) if tier == "quick" else (1, 2)):
        hs.append(H("C19.S2.hdiffvs.n%d" % nmem, "C19", src="harness/C19/s2_hdiff_vs.c", units=libhdf_units() + libmfhdf_units() + hd, models=["memio", "herr", "memloops", "printf"],
                    defs={"NMEM": nmem, "MEMIO_DISK_SZ": 4096}, unwind=5000, kind="S", timeout=1500, mf=True, extra_cc=["-I" + REPO + "/mfhdf/hdiff"],
                    symbolic="record bytes of both files", bound="top-level vgroup with %d Vdata member(s) + one lone Vdata, 2 records each" % nmem, group="C19.S2", hang_is_violation=True))
    return hs
