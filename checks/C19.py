"""C19 — inspection tools report what is actually in the file."""
from engine.h4v import H, REPO, libhdf_units, libmfhdf_units

TYPES = [("INT8", 20, 1), ("UINT8", 21, 1), ("CHAR8", 4, 1), ("INT16", 22, 2), ("UINT16", 23, 2), ("INT32", 24, 4), ("UINT32", 25, 4), ("FLOAT32", 5, 4), ("FLOAT64", 6, 8)]

META = dict(
    bounds=["K1: hdiff's array_diff on 2 elements per buffer, every number type hdiff handles, zero tolerances, all bit patterns symbolic (NaN/inf excluded for floats)"],
    stubs=["printf = CBMC built-in (output not inspected)", "getenv returns NULL (DEBUG unset)"],
    outside=["hdp dump formatting, hdfimport text/float parsing (fscanf/printf-driven: no bounded encoding within reach)", "hdiff object matching and SD/GR/Vdata traversal",
             "buffers longer than 2 elements (loop body is uniform)"],
    manifest=dict(
        level="Bounded model checking (CBMC/SAT) of the real hdiff comparison kernel (mfhdf/hdiff/hdiff_array.c): for every number type and ALL pairs of element values the solver "
              "decides that array_diff with zero tolerances returns 0 exactly when the buffers are equal, counts each differing element once, and is symmetric in whether "
              "differences are found.",
        note="Trusted: CBMC 6.11 floating-point encoding, printf ignored. Only the element-comparison clause of C19 is decided; hdp and hdfimport clauses are not.",
        technique="CBMC bounded model checking of real hdiff_array.c with fully symbolic element values"),
)

def plan(ctx, tier, seed):
    hs = []
    for tn, code, sz in TYPES:
        hs.append(H("C19.K1.arraydiff." + tn, "C19", src="harness/C19/k1_arraydiff.c", units=["mfhdf/hdiff/hdiff_array.c"], models=["herr", "memloops"],
                    defs={"TYPE": code, "SZ": sz, "N": 2}, unwind=20, kind="K", timeout=900, mf=True, field_sens=64,
                    extra_cc=["-I" + REPO + "/mfhdf/hdiff"], symbolic="2x2 elements, all bit patterns", bound="2 elements per buffer", group="C19.K1"))
    hd = ["mfhdf/hdiff/hdiff_vs.c", "mfhdf/hdiff/hdiff_table.c", "mfhdf/hdiff/hdiff_misc.c", "mfhdf/hdiff/hdiff_array.c", "mfhdf/hdiff/hdiff_dim.c",
          "mfhdf/hdiff/hdiff_mattbl.c", "mfhdf/hdiff/hdiff_sds.c", "mfhdf/hdiff/hdiff_gr.c", "mfhdf/hdiff/hdiff_gattr.c"]
    for nmem in (1, 2):
        hs.append(H("C19.S2.hdiffvs.n%d" % nmem, "C19", src="harness/C19/s2_hdiff_vs.c", units=libhdf_units() + libmfhdf_units() + hd, models=["memio", "herr", "memloops", "printf"],
                    defs={"NMEM": nmem, "MEMIO_DISK_SZ": 4096}, unwind=5000, kind="S", timeout=1500, mf=True, extra_cc=["-I" + REPO + "/mfhdf/hdiff"],
                    symbolic="record bytes of both files", bound="top-level vgroup with %d Vdata member(s) + one lone Vdata, 2 records each" % nmem, group="C19.S2", hang_is_violation=True))
    return hs
