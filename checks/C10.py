"""C10 — attributes and descriptive metadata are returned exactly as last set."""
import os
from engine.h4v import H, libhdf_units, libmfhdf_units

META = dict(
    bounds=["S1: 5 Vdata/field attributes + 3 Vgroup attributes, 3 GR file / image attributes (6 number types, counts 1..4, names incl. a prefix-duplicate and equal names on "
            "different fields); replace, refused retype/recount, reopen in read and write mode; all value bytes symbolic",
            "S2 (real mfhdf): one SD session; 4 user attributes each on the file, a dataset and a dimension (prefix-duplicate names), replacement with the same and with another "
            "type/count; fill value, valid range, calibration, data strings, dimension name / scale / strings; name<->index<->ref lookups; all values symbolic"],
    stubs=["stdio = models/memio.c", "error stack = codes only", "malloc never fails", "sprintf model (E9)"],
    outside=["SD attributes across SDend/SDstart (the mfhdf reopen path does not finish under symbolic execution; DESIGN.md)", "counts > 4"],
    manifest=dict(
        level="Bounded model checking (CBMC/SAT) of the whole real libhdf (vattr.c, mfgr.c over V/H layers) on memio: for the concrete attribute histories the solver decides "
              "for ALL value bytes that type, count, size, name and values come back by index and by name, that a replacement keeps index and all other attributes, that a "
              "type/count change on Vdata/Vgroup attributes is refused leaving the old value, and that everything survives close and reopen; (S2) real mfhdf attribute and predefined-metadata code within one SD session: user attributes on "
              "file/dataset/dimension and fill value / range / calibration / strings / dimension name, scale and strings read back exactly what was set, a re-set replaces "
              "in place, the lookups name<->index<->ref agree.",
        note="Quick tier: Vgroup (read-mode reopen), GR file/image and SD histories; the Vdata/field histories (13 min each) and the write-mode reopen run in the thorough tier. Trusted: memio, codes-only error stack, H4_VERIF hook, CBMC 6.11. SD attributes are decided within one SD session only (persistence across SDend/SDstart is outside).",
        technique="CBMC bounded model checking of real vattr.c/mfgr.c and mfhdf attr.c/mfsd.c attribute code (whole libhdf + mfhdf); symbolic values, concrete history"),
)

def plan(ctx, tier, seed):
    hs = []
    # quick: the Vdata/field attribute histories (mode 0, 13 min each) and the write-mode reopen of the Vgroup one run in the thorough tier only
    for mode, ropen in (((3, 1), (1, 1), (2, 1)) if tier == "quick" else ((0, 1), (0, 3), (3, 1), (3, 3), (1, 1), (2, 1))):
        hs.append(H("C10.S1.m%d.o%d" % (mode, ropen), "C10", src="harness/C10/s1_attr.c", units=libhdf_units(), models=["memio", "herr", "memloops", "printf"],
                    defs={"MODE": mode, "ROPEN": ropen, "MEMIO_DISK_SZ": 8192}, unwind=5000, kind="S", timeout=2000, symbolic="attribute value bytes",
                    bound="concrete attribute history", group="C10.S1", hang_is_violation=True))
    lower = ["mfhdf/src/putget.c", "mfhdf/src/var.c", "mfhdf/src/array.c", "mfhdf/src/putgetg.c", "mfhdf/src/mfsd.c", "mfhdf/src/cdf.c", "mfhdf/src/attr.c", "mfhdf/src/dim.c"]
    for mode, reopen in ((0, 0), (1, 0)) + (((0, 1),) if (tier != "quick" or os.environ.get("H4V_C10_REOPEN") == "1") else ()):
        hs.append(H("C10.S2.sd.m%d%s" % (mode, ".reopen" if reopen else ""), "C10", src="harness/C10/s2_sdattr.c", units=libhdf_units() + libmfhdf_units(), models=["memio", "herr", "memloops", "printf"],
                    defs={"MODE": mode, "REOPEN": reopen, "MEMIO_DISK_SZ": 8192}, unwind=5000, kind="S", timeout=3000 if reopen else 1500, mf=True, lower=lower, symbolic="attribute / metadata value bytes",
                    bound="one SD session, concrete call history", group="C10.S2", hang_is_violation=True))
    return hs
