"""C03 — SDS hyperslab reads and writes behave as an n-dimensional array."""
import os, random
from engine.h4v import H, libhdf_units, libmfhdf_units

META = dict(
    bounds=["S1: one SD session (SDstart(create), SDcreate, SDsetfillvalue/SDsetfillmode, two SDwritedata slabs, SDreaddata slab, refused out-of-range request, full re-read); "
            "rank 1..3, extents <= 3, int8/int16/int32/float64, strides <= 2, unlimited first dimension; geometry enumerated (curated + seed-derived), all values symbolic"],
    stubs=["stdio = models/memio.c", "error stack = codes only", "malloc never fails", "sprintf model (E9)", "relational pointer comparisons in mfhdf lowered to differences (E8, "
           "located with clang's AST, regenerated every run)"],
    outside=["SDend/SDstart round trip in the quick tier (one curated 2x3 instance in the thorough tier: about 20 minutes)", "ranks > 3, extents > 3", "netCDF/CDF file flavours"],
    manifest=dict(
        level="Bounded model checking (CBMC/SAT) of the real mfhdf SD stack (mfsd.c, putget.c, putgetg.c, var.c, ...) over the real libhdf on memio within one session: for each "
              "concrete geometry the solver decides for ALL data and fill values that a read returns the last written value of every selected cell in row-major order, that "
              "never-written cells hold the fill value when fill mode is on, that growth along the unlimited dimension is recorded, and that an out-of-range request fails and "
              "changes nothing.",
        note="Trusted: memio, codes-only error stack, H4_VERIF hook, sprintf model, E8 pointer-comparison lowering (semantics-preserving for same-array pointers), CBMC 6.11. "
             "Persistence across SDend/SDstart is NOT decided.",
        technique="CBMC bounded model checking of real mfhdf+libhdf sources; symbolic values, concrete slab geometry"),
)

NTS = {"i8": ("DFNT_INT8", 1), "i16": ("DFNT_INT16", 2), "i32": ("DFNT_INT32", 4), "f64": ("DFNT_FLOAT64", 8)}

def v3(t): return list(t) + [0 if len(t) else 0] * (3 - len(t))

def inst(name, dims, nt, w1, r1, usestride=0, second=None, fillmode=1, userfill=1, unlim=0, bad=None, reopen=0):
    rank = len(dims)
    d = {"RANK": rank, "D0": dims[0], "D1": dims[1] if rank > 1 else 1, "D2": dims[2] if rank > 2 else 1, "NT": NTS[nt][0], "ES": NTS[nt][1],
         "USESTRIDE": usestride, "FILLMODE": fillmode, "USERFILL": userfill, "UNLIM": unlim, "SECOND": 1 if second else 0, "BAD": 0, "REOPEN": reopen, "MEMIO_DISK_SZ": 8192}
    def put(prefix, trip, default):
        for i in range(3):
            d["%s%d" % (prefix, i)] = trip[i] if i < len(trip) else default
    put("W1S", w1[0], 0); put("W1T", w1[1], 1); put("W1C", w1[2], 1)
    put("R1S", r1[0], 0); put("R1T", r1[1], 1); put("R1C", r1[2], 1)
    put("W2S", second[0] if second else (), 0); put("W2C", second[1] if second else (), 1)
    if bad:
        d["BAD"] = bad[0]; put("BADS", bad[1], 0); put("BADC", bad[2], 1)
    else:
        put("BADS", (), 0); put("BADC", (), 1)
    lower = ["mfhdf/src/putget.c", "mfhdf/src/var.c", "mfhdf/src/array.c", "mfhdf/src/putgetg.c", "mfhdf/src/mfsd.c", "mfhdf/src/cdf.c", "mfhdf/src/attr.c", "mfhdf/src/dim.c"]
    return H("C03.S1." + name, "C03", src="harness/C03/s1_sd.c", units=libhdf_units() + libmfhdf_units(), models=["memio", "herr", "memloops", "printf"],
             defs=d, unwind=5000, kind="S", timeout=2400, mf=True, lower=lower, symbolic="data values, fill value",
             bound="dims %s %s w1=%s r1=%s" % (dims, nt, w1, r1), group="C03.S1", hang_is_violation=True)

def curated(tier="quick"):
    S = []
    S.append(inst("2x3-full", (2, 3), "i32", ((0, 0), (1, 1), (2, 3)), ((0, 1), (1, 1), (2, 2))))
    S.append(inst("2x3-partial-fill", (2, 3), "i16", ((1, 1), (1, 1), (1, 2)), ((0, 0), (1, 1), (2, 3)), bad=(1, (1, 2), (1, 2))))
    S.append(inst("3x3-stride", (3, 3), "i8", ((0, 0), (2, 2), (2, 2)), ((0, 0), (1, 2), (3, 2)), usestride=1, bad=(2, (0, 0), (4, 1))))
    S.append(inst("rank1-two-writes", (3,), "f64", ((0,), (1,), (2,)), ((0,), (1,), (3,)), second=((1,), (2,)), userfill=0))
    S.append(inst("unlimited", (2, 2), "i32", ((1, 0), (1, 1), (1, 2)), ((0, 0), (1, 1), (2, 2)), unlim=1))
    S.append(inst("rank3", (2, 2, 2), "i16", ((0, 1, 0), (1, 1, 1), (2, 1, 2)), ((0, 0, 0), (1, 1, 1), (2, 2, 2))))
    if tier != "quick" or os.environ.get("H4V_C03_REOPEN") == "1":  # SDend + SDstart round trip (needs the H4_VERIF hook in hdf_read_dims; ~20 min: thorough tier only)
        S.append(inst("2x3-reopen", (2, 3), "i16", ((0, 0), (1, 1), (2, 2)), ((0, 0), (1, 1), (2, 3)), reopen=1))
    return S

def plan(ctx, tier, seed):
    hs = curated(tier)
    rng = random.Random(300 + seed)
    for i in range(2 if tier == "quick" else 60):
        rank = rng.randint(1, 3)
        dims = tuple(rng.randint(1, 3) for _ in range(rank))
        us = rng.randint(0, 1)
        def reg():
            s, t, c = [], [], []
            for dd in dims:
                ti = rng.choice([1, 2]) if us else 1
                si = rng.randint(0, dd - 1)
                ci = rng.randint(1, (dd - 1 - si) // ti + 1)
                s.append(si); t.append(ti); c.append(ci)
            return (tuple(s), tuple(t), tuple(c))
        hs.append(inst("rand%d" % i, dims, rng.choice(sorted(NTS)), reg(), reg(), usestride=us, fillmode=1, userfill=rng.randint(0, 1)))
    return hs
