from engine.h4v import H, libhdf_units
META = {}
def plan(ctx, tier, seed):
    return [H("probe.putget", "probe", src="harness/probe/s_putget.c", units=libhdf_units(),
              models=["memio", "herr", "memloops", "printf"], unwind=5000, kind="S", symbolic="8 payload bytes",
              defs={"MEMIO_DISK_SZ": 2048})]
