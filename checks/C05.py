"""C05 — lossless coders and bit-level I/O round-trip every byte stream."""
from engine.h4v import H

META = dict(
    bounds=["K1 rle: N=6 symbolic bytes x enumerated write split / read split / seek target; inductive step from any RUN(3..129)/MIX(1..127) pending state + <=3 symbolic bytes"],
    stubs=["H-level element below the coders = harness/C05/stream_model.h (growable byte array)", "hcomp_priv.h compiled with union->struct in coder TUs (E5)",
           "error stack = codes only"],
    outside=["skipping-Huffman coder (cskphuff.c): not decided - see the note in checks/C05.py", "streams longer than the bounds", "deflate's actual compression (zlib is external)", "szip"],
    manifest=dict(
        level="Bounded model checking (CBMC/SAT) of the real coder sources (crle.c, cskphuff.c, cnbit.c, hbitio.c, hcomp.c header codec) over a byte-stream model of the "
              "element below them: round trips with ALL byte values symbolic for enumerated call partitions and seek targets, plus an inductive step from an arbitrary "
              "valid pending run/mix state so that the 127/128/130 limits are covered without long inputs.",
        note="Trusted: stream model of Hread/Hwrite/HDgetc/HDputc/Hseek; union->struct lowering of the coder state (no coder reads another coder's member); CBMC 6.11.",
        technique="CBMC bounded model checking of real coder kernels with symbolic data, enumerated call partitions"),
)

def plan(ctx, tier, seed):
    hs = []
    N = 4 if tier == "quick" else 6
    splits = [(0, 1, 0), (2, 3, 1), (3, 4, 3), (4, 0, 2), (1, 2, 4)] if tier == "quick" else \
             [(w, r, q) for w in range(N + 1) for r in (0, 2, 5, 6) for q in (0, 3, 6)]
    for w, r, q in splits:
      for phase in (0, 1, 2):
        hs.append(H("C05.K1.rle.rt.w%d.r%d.q%d.p%d" % (w, r, q, phase), "C05", src="harness/C05/k1_rle.c", units=[], models=["herr"],
                    defs={"MODE": 0, "N": N, "W": w, "R": r, "R2": min(N, r + 1), "Q": q, "PHASE": phase}, unwind=N + 4, kind="K", timeout=900, mem_gb=14,
                    extra_cc=["-I/verif/harness/C05"], field_sens=16, symbolic="%d data bytes" % N,
                    bound="N=%d; write split/read split/seek target enumerated" % N, group="C05.K1.rle.rt"))
    lim = [(1, 3, 0), (1, 128, 0), (1, 129, 0), (0, 1, 0), (0, 2, 0), (0, 2, 1), (0, 126, 0), (0, 126, 1), (0, 127, 0), (0, 127, 1)]
    for run, ln, teq in lim:
        for more in (0, 1, 2, 3):
            for pat in range(3 ** more):
                if tier == "quick" and more == 3 and pat % 4:
                    continue
                hs.append(H("C05.K1.rle.limit.%s%d%s.m%d.p%d" % ("run" if run else "mix", ln, "eq" if teq else "", more, pat), "C05",
                            src="harness/C05/k1_rle.c", units=[], models=["herr"],
                            defs={"MODE": 1, "N": 3, "ST_RUN": run, "ST_LEN": ln, "TAIL_EQ": teq, "MORE": more, "PAT": pat},
                            unwind=136, kind="K", timeout=300, extra_cc=["-I/verif/harness/C05"], field_sens=256,
                            symbolic="pending mix bytes (all but the last two)", bound="pending count at the limits x equality pattern of <=3 new bytes (enumerated)",
                            group="C05.K1.rle.limit"))
    for sz in (1, 2, 4):
        sbs = range(sz * 8) if (tier == "thorough" or sz < 4) else (0, 7, 8, 15, 16, 23, 24, 31)
        for sb in sbs:
            # read partition: quick = [1][2] (a growing request) everywhere + one call / [2][1] at a seed-chosen start bit; thorough = all three everywhere
            parts = (0, 1, 2) if (tier == "thorough" or sb == (seed * 5 + 3) % (sz * 8)) else (1,)
            for part in parts:
                hs.append(H("C05.K3.nbit.sz%d.sb%d.p%d" % (sz, sb, part), "C05", src="harness/C05/k3_nbit.c", units=["hdf/src/hdfalloc.c"], models=["herr"],
                            defs={"NTSZ": sz, "START_BIT": sb, "PART": part, "BLSUB": 1 if (tier == "quick" and sz == 4) else 0}, unwind=40, kind="K", timeout=900, extra_cc=["-I/verif/harness/C05"], field_sens=256,
                            symbolic="3 values (all bit patterns)", bound="start bit and read partition enumerated; every bit length (quick, 4-byte types: lengths at/next to byte boundaries and range ends), sign_ext, fill_one (concrete loop)",
                            group="C05.K3.nbit"))
    import random
    rng = random.Random(500 + seed)
    wl = [(1, 7, 8, 9), (32, 32, 1, 31), (5, 5, 5, 5), (8, 16, 24, 32), (3, 13, 17, 2), (31, 1, 1, 31), (12, 20, 4, 28), (7, 9, 15, 1)]
    wl += [tuple(rng.randint(1, 32) for _ in range(4)) for _ in range(8 if tier == "quick" else 120)]
    for i, ws in enumerate(wl):
        for mode in ((0, 1, 2) if i < 2 else (0, 1)):
            hs.append(H("C05.K4.bitio.w%s.m%d" % ("_".join(map(str, ws)), mode), "C05", src="harness/C05/k4_bitio.c", units=["hdf/src/atom.c"],
                        models=["herr"], defs={"MODE": mode, "NF": 4, "FIXW": ",".join(map(str, ws)), "KSEL": i % 4}, unwind=70, kind="K", timeout=600,
                        extra_cc=["-I/verif/harness/C05"], field_sens=4096,
                        symbolic="4 field values (all bit patterns), seek target field, rewrite value", bound="4 fields; widths enumerated (curated + seed-derived)",
                        group="C05.K4.bitio"))
    # skipping Huffman (harness/C05/k2_skphuff.c) is NOT part of any tier: even one symbolic byte makes the adaptive tree symbolic (out of memory at 14 GB),
    # and with fully concrete data the 513-entry tree initialisation alone takes > 5 min of symbolic execution per instance (measured).
    return hs
