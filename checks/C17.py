"""C17 — a crash while adding objects never damages what was already in the file."""
from engine.h4v import H, libhdf_units

META = dict(
    bounds=["S1: 2 append-only workloads (5 new elements needing new descriptor blocks with ndds 4/5/16; new vdata+vgroup) on a file holding 2 elements (+ vdata + vgroup), also with every DD block exactly full and with a data-less last DD block being the last thing in the file; "
            "every prefix of the session's ordered writes materialised and reopened (each library-level write atomic); payload symbolic"],
    stubs=["stdio = models/memio.c with a data-carrying write log", "error stack = codes only", "malloc never fails"],
    outside=["SD / GR / annotation sessions (they rewrite existing metadata; the in-flush guarantee excludes them)", "torn writes inside one library-level write"],
    manifest=dict(
        level="Bounded model checking (CBMC/SAT) of the whole real libhdf on memio: for each append-only workload the solver decides for all payloads that (1) no write before "
              "the flush lands below the old end of file (asserted inside the stdio model on every write) and (2) for EVERY prefix of the ordered physical writes of the "
              "session, the file consisting of the old bytes plus that prefix opens and every previously stored object reads back unchanged.",
        note="Trusted: memio (write log with data), codes-only error stack, H4_VERIF hook, CBMC 6.11. Crash points are enumerated exhaustively over the session's writes (a loop inside each query).",
        technique="CBMC bounded model checking of real libhdf; exhaustive crash-prefix enumeration over the stdio write log, symbolic payload"),
)

def plan(ctx, tier, seed):
    hs = []
    combos = [(0, 4, 0), (0, 104, 0), (0, 204, 0), (1, 16, 1)] if tier == "quick" else [(w, n, v) for w in (0, 1) for n in (4, 104, 204, 5, 16) for v in (0, 1)]
    for wl, ndds, withv in combos:
        rngs = [(0, 3), (4, 7), (8, 11), (12, 40)] if not withv else [(0, 1), (2, 3), (4, 5), (6, 7), (8, 9), (10, 12), (13, 40)]
        for lo, hi in rngs:
            hs.append(H("C17.S1.w%d.n%d.v%d.c%d_%d" % (wl, ndds, withv, lo, hi), "C17", src="harness/C17/s1_crash.c", units=libhdf_units(),
                        models=["memio", "herr", "memloops", "printf"],
                        defs={"WL": wl, "NDDS": ndds % 100, "FULLBLK": 1 if ndds >= 100 else 0, "TAILDD": 1 if ndds >= 200 else 0, "WITHV": withv, "CMIN": lo, "CMAX": hi, "MEMIO_DISK_SZ": 2048, "MEMIO_LOGDATA": 2048, "MEMIO_LOGN": 64},
                        unwind=5000, kind="S", timeout=1500, symbolic="40 payload bytes", bound="crash prefixes %d..%d of the session's writes" % (lo, hi),
                        group="C17.S1", hang_is_violation=True))
    return hs
