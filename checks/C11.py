"""C11 — annotations stay attached to their objects and keep their text."""
import random
from engine.h4v import H, libhdf_units

META = dict(
    bounds=["S1: 4 annotations per history over 2 objects x 4 annotation types, text lengths 1..10 (zero-length annotations are refused by the library: Hwrite of length 0 is an error), optional rewrite (longer/shorter), reopen; texts symbolic bytes"],
    stubs=["stdio = models/memio.c", "error stack = codes only", "malloc never fails"],
    outside=["more than 4 annotations per file", "the single-file DFAN interface (see C15)"],
    manifest=dict(
        level="Bounded model checking (CBMC/SAT) of the whole real libhdf (mfan.c over the H layer) on memio: for each concrete history (which annotations exist on which "
              "objects, text lengths incl. 0, rewrites with longer/shorter text, close/reopen) the solver decides for ALL text bytes (descriptions may contain NUL) that "
              "lengths, texts, per-type counts, per-object lists and the id<->tag/ref mapping are exact, that rewriting keeps the identity, and that ANreadann never writes "
              "beyond text+NUL or beyond a short caller buffer.",
        note="Trusted: memio, codes-only error stack, H4_VERIF hook, CBMC 6.11. Histories enumerated (curated + VERIF_SEED-derived).",
        technique="CBMC bounded model checking of real mfan.c (whole libhdf); symbolic annotation text, concrete history"),
)

def inst(name, ty, tg, rf, l1, l2, shortbuf=None):
    d = {"H4V_TY": ",".join(map(str, ty)), "H4V_TG": ",".join(map(str, tg)), "H4V_RF": ",".join(map(str, rf)), "H4V_L1": ",".join(map(str, l1)),
         "H4V_L2": ",".join(map(str, l2)), "MEMIO_DISK_SZ": 4096}
    if shortbuf is not None:
        d["SHORTBUF"] = shortbuf
    return H("C11.S1." + name, "C11", src="harness/C11/s1_an.c", units=libhdf_units(), models=["memio", "herr", "memloops", "printf"], defs=d,
             unwind=5000, kind="S", timeout=1200, symbolic="annotation text bytes", bound="types %s lens %s rewrites %s" % (ty, l1, l2), group="C11.S1",
             hang_is_violation=True)

def curated():
    S = []
    S.append(inst("each-type", [0, 1, 2, 3], [1000, 1000, 0, 0], [1, 1, 0, 0], [5, 9, 4, 7], [-1, -1, -1, -1]))
    S.append(inst("two-per-object", [1, 1, 0, 0], [1000, 1000, 1000, 1000], [1, 1, 2, 1], [3, 6, 2, 5], [8, -1, -1, 1]))
    S.append(inst("rewrite-grow-shrink", [1, 0, 3, 2], [1000, 1000, 0, 0], [2, 2, 0, 0], [4, 4, 6, 3], [10, 2, 1, 9]))
    S.append(inst("short-buffer", [0, 1, 2, 3], [1000, 1000, 0, 0], [1, 2, 0, 0], [5, 6, 5, 6], [-1, -1, -1, -1], shortbuf=3))
    S.append(inst("one-byte-texts", [1, 3, 1, 0], [1000, 0, 1000, 1000], [1, 0, 2, 2], [1, 1, 5, 1], [-1, 4, 1, -1], shortbuf=1))
    return S

def plan(ctx, tier, seed):
    hs = curated()
    rng = random.Random(1100 + seed)
    for i in range(3 if tier == "quick" else 60):
        ty = [rng.randint(0, 3) for _ in range(4)]
        hs.append(inst("rand%d" % i, ty, [1000] * 4, [rng.randint(1, 2) for _ in range(4)], [rng.randint(1, 10) for _ in range(4)],
                       [rng.choice([-1, -1, rng.randint(1, 10)]) for _ in range(4)], shortbuf=rng.choice([None, 2, 4])))
    return hs
