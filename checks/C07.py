"""C07 — Vdata tables return exactly the records written, for any schema and access."""
import random
from engine.h4v import H, libhdf_units

T = {"i8": ("DFNT_INT8", 1), "u8": ("DFNT_UINT8", 1), "c8": ("DFNT_CHAR8", 1), "i16": ("DFNT_INT16", 2), "u16": ("DFNT_UINT16", 2),
     "i32": ("DFNT_INT32", 4), "f32": ("DFNT_FLOAT32", 4), "f64": ("DFNT_FLOAT64", 8)}

META = dict(
    bounds=["S1: schemas of 1..3 fields (8 number types, orders 1..3), <= 6 records, write/read interlace and stored interlace enumerated, seek/overwrite/append positions "
            "enumerated, read field subsets/permutations enumerated; all stored bytes symbolic"],
    stubs=["stdio = models/memio.c", "error stack = codes only", "malloc never fails", "atom cache swap via H4_VERIF hook", "sprintf model (E9)"],
    outside=["more than 3 fields / 6 records", "Vtbuf growth beyond 64 KiB"],
    manifest=dict(
        level="Bounded model checking (CBMC/SAT) of the whole real libhdf (vrw.c, vio.c, vsfld.c, vparse.c, vg.c over hfile/hblocks) on memio: for each concrete schema/"
              "access skeleton (write, seek, overwrite, append incl. linked-block promotion and VSsetblocksize growth, detach/re-attach, close/reopen, read of a field "
              "subset/permutation in either interlace) the solver decides for ALL stored byte values that VSread returns exactly the stored field values and that "
              "counts, sizes, names, types and orders agree with the table.",
        note="Trusted: memio, codes-only error stack, H4_VERIF hook, CBMC 6.11. Skeletons are enumerated (curated + VERIF_SEED-derived).",
        technique="CBMC bounded model checking of real Vdata code (whole libhdf); symbolic record bytes, concrete schema/access skeleton"),
)

def fields(spec):
    out = []
    for i, (t, order) in enumerate(spec):
        ct, sz = T[t]
        out.append('{"F%d", %s, %d, %d}' % (i, ct, order, sz * order))
    return ", ".join(out)

def inst(name, spec, rd, n1, n2, sk, rs, rn, wil=0, ril=0, sil=0, ropen=1, reattach=False, blocker=False, blocksize=None):
    rec = sum(T[t][1] * o for t, o in spec)
    d = {"H4V_FIELDS": fields(spec), "H4V_READ": ",".join(map(str, rd)), "N1": n1, "N2": n2, "SK": sk, "RS": rs, "RN": rn,
         "WIL": wil, "RIL": ril, "SIL": sil, "ROPEN": ropen, "MAXREC": 6, "RECMAX": max(rec, 4), "MEMIO_DISK_SZ": 8192}
    if reattach: d["REATTACH"] = 1
    if blocker: d["BLOCKER"] = 1; d["REATTACH"] = 1
    if blocksize: d["BLOCKSIZE"] = blocksize[0]; d["NUMBLOCKS"] = blocksize[1]
    return H("C07.S1." + name, "C07", src="harness/C07/s1_vdata.c", units=libhdf_units(), models=["memio", "herr", "memloops", "printf"],
             defs=d, unwind=5000, kind="S", timeout=900, symbolic="%d record bytes" % ((n1 + n2) * rec),
             bound="schema %s; n1=%d n2=%d seek=%d; read %s from %d x%d" % (spec, n1, n2, sk, rd, rs, rn), group="C07.S1", hang_is_violation=True)

def curated():
    S = []
    S.append(inst("basic", [("i16", 1), ("u8", 3), ("f64", 1)], [0, 1, 2], 3, 0, 0, 0, 3))
    S.append(inst("subset-perm", [("i16", 1), ("u8", 3), ("f64", 1)], [2, 0], 3, 0, 0, 1, 2))
    S.append(inst("overwrite", [("i32", 1), ("c8", 2)], [1, 0], 4, 2, 1, 0, 4, reattach=True))
    S.append(inst("append", [("i32", 1), ("c8", 2)], [0, 1], 2, 3, 2, 1, 4, reattach=True))
    S.append(inst("overlap-extend", [("i32", 1), ("f32", 2)], [0, 1], 3, 3, 2, 0, 5, reattach=True))
    S.append(inst("append-promote", [("u16", 2), ("i8", 1)], [0, 1], 2, 2, 2, 0, 4, blocker=True))
    S.append(inst("nointerlace-buf", [("i16", 1), ("f32", 1)], [0, 1], 3, 0, 0, 0, 3, wil=1, ril=1))
    S.append(inst("mixed-interlace", [("i16", 2), ("u8", 1), ("i32", 1)], [2, 1], 3, 0, 0, 1, 2, wil=1, ril=0))
    S.append(inst("stored-nointerlace", [("i16", 1), ("u8", 2)], [1, 0], 3, 0, 0, 0, 3, sil=1, ril=1))
    S.append(inst("blocksize-growth", [("i32", 1), ("i32", 1)], [1], 1, 4, 1, 0, 5, blocker=True, blocksize=(8, 2)))
    S.append(inst("rdwr-reopen", [("f64", 1)], [0], 2, 1, 0, 0, 2, ropen=3))
    return S

def rand_inst(rng, i):
    nf = rng.randint(1, 3)
    spec = [(rng.choice(sorted(T)), rng.randint(1, 2)) for _ in range(nf)]
    while sum(T[t][1] * o for t, o in spec) > 20:
        spec = [(rng.choice(sorted(T)), 1) for _ in range(nf)]
    n1 = rng.randint(1, 3); n2 = rng.randint(0, 2); sk = rng.randint(0, n1) if n2 else 0
    tot = max(n1, sk + n2)
    k = rng.randint(1, nf); rd = rng.sample(range(nf), k)
    rs = rng.randint(0, tot - 1); rn = rng.randint(1, tot - rs)
    return inst("rand%d" % i, spec, rd, n1, n2, sk, rs, rn, wil=rng.randint(0, 1), ril=rng.randint(0, 1), sil=0,
                reattach=bool(n2) and rng.random() < 0.7, blocker=bool(n2) and rng.random() < 0.3)

def plan(ctx, tier, seed):
    hs = curated()
    rng = random.Random(700 + seed)
    for i in range(6 if tier == "quick" else 80):
        hs.append(rand_inst(rng, i))
    return hs
