"""C08 — Vgroup membership, naming and hierarchy persist exactly as edited."""
import os, random
from engine.h4v import H, libhdf_units, VERIF

META = dict(
    bounds=["S1: concrete edit histories of <= 14 operations over 3 vgroups and 2 vdatas; member reference numbers symbolic; names/classes concrete text of length 0..70; <= 6 members per vgroup"],
    stubs=["stdio = models/memio.c", "error stack = codes only", "malloc never fails", "atom cache swap via H4_VERIF hook"],
    outside=["member counts 64/128 at scenario level", "more than 3 vgroups", "Vlone/VSlone (65535-entry scan per call does not finish under symbolic execution)"],
    manifest=dict(
        level="Bounded model checking (CBMC/SAT) of the whole real libhdf (vgp.c, vg.c, vhi.c, vio.c) on memio: each concrete edit history (create, rename, class change, "
              "add by tag/ref, insert vgroup/vdata, delete member, delete vgroup/vdata, detach/re-attach, close/reopen in read or write mode) is compared with a reference "
              "graph (ordered member lists, names, classes, iteration, lookup by name) for ALL values of the reference numbers of stored-only members, together with every "
              "CBMC memory-safety check on the executed library paths.",
        note="Trusted: memio, codes-only error stack, H4_VERIF hook, CBMC 6.11. Histories are enumerated (curated + VERIF_SEED-derived).",
        technique="CBMC bounded model checking of real Vgroup code (whole libhdf); symbolic member refs, concrete edit history"),
)

def op(name, g=0, x=0, y=0): return "{V_%s,%d,%d,%d}" % (name, g, x, y)

def scen(name, ops, timeout=900):
    text = "#define H4V_PROG %s\n#include \"%s\"\n" % (", \\\n ".join(ops), os.path.join(VERIF, "harness/C08/s1_vgroup.c"))
    return H("C08.S1." + name, "C08", text=text, units=libhdf_units(), models=["memio", "herr", "memloops", "printf"],
             defs={"MEMIO_DISK_SZ": 8192}, unwind=5000, kind="S", timeout=timeout, symbolic="reference numbers of tag/ref members (uint16)",
             bound="%d edits" % len(ops), group="C08.S1", hang_is_violation=True)

def curated():
    S = []
    S.append(("basic", [op("CREATE", 0), op("SETNAME", 0, 5), op("SETCLASS", 0, 3), op("ADDTAGREF", 0, 1000, 1), op("ADDTAGREF", 0, 1000, 2), op("ADDTAGREF", 0, 1000, 1), op("CREATE", 1), op("ADDTAGREF", 1, 1001, 100), op("ADDTAGREF", 1, 1001, 101), op("ADDTAGREF", 1, 1002, 100),
                        op("CHECK"), op("DELTAGREF", 0, 1000, 1), op("CHECK"), op("REOPEN", 0, 1), op("CHECK")]))
    S.append(("hierarchy", [op("CREATE", 0), op("SETNAME", 0, 4), op("CREATE", 1), op("SETNAME", 1, 6), op("VSCREATE", 0, 0), op("VSCREATE", 0, 1), op("INSERTVG", 0, 1),
                            op("INSERTVS", 1, 0), op("CHECK"), op("REOPEN", 0, 3), op("CHECK"), op("DELTAGREF_VG", 0, 1), op("CHECK"), op("VSDELETE", 0, 1), op("CHECK"),
                            op("REOPEN", 0, 1), op("CHECK")]))
    S.append(("longnames", [op("CREATE", 0), op("SETNAME", 0, 65), op("SETCLASS", 0, 70), op("CREATE", 1), op("SETNAME", 1, 64), op("SETNAME", 1, 2), op("CHECK"),
                            op("REOPEN", 0, 1), op("CHECK")]))
    S.append(("delete-vg", [op("CREATE", 0), op("SETNAME", 0, 3), op("CREATE", 1), op("SETNAME", 1, 4), op("CREATE", 2), op("SETNAME", 2, 5), op("INSERTVG", 0, 1), op("CHECK"),
                            op("DELETE", 2), op("CHECK"), op("REOPEN", 0, 3), op("CHECK"), op("DELETE", 1), op("DELTAGREF_VG", 0, 1), op("CHECK"), op("REOPEN", 0, 1), op("CHECK")]))
    S.append(("reattach-edit", [op("CREATE", 0), op("SETNAME", 0, 3), op("ADDTAGREF", 0, 700, 1), op("DETACH", 0), op("ATTACH", 0), op("ADDTAGREF", 0, 700, 2), op("SETCLASS", 0, 9),
                                op("CHECK"), op("DETACH", 0), op("ATTACH", 0), op("DELTAGREF", 0, 700, 1), op("CHECK"), op("REOPEN", 0, 1), op("CHECK")]))
    S.append(("second-handle", [op("CREATE", 0), op("SETNAME", 0, 4), op("ADDTAGREF", 0, 700, 1), op("DETACH", 0), op("ATTACH", 0), op("SETNAME", 0, 7), op("ADDTAGREF", 0, 700, 2),
                                op("ATTACH2", 0), op("CHECK"), op("REOPEN", 0, 1), op("CHECK")]))
    return S

def rand(rng):
    ops = [op("CREATE", 0), op("SETNAME", 0, rng.randint(1, 8))]
    exists = {0}; nm = {0: []}; lens = 0; pools = 1
    for _ in range(rng.randint(5, 9)):
        r = rng.random()
        g = rng.choice(sorted(exists))
        if r < 0.2 and len(exists) < 3:
            n = min(set(range(3)) - exists); ops.append(op("CREATE", n)); exists.add(n); nm[n] = []
            if pools < 6: ops.append(op("SETNAME", n, 10 + n)); pools += 1
        elif r < 0.55 and len(nm[g]) < 5:
            t, rf = rng.choice([700, 701]), rng.randint(1, 3); ops.append(op("ADDTAGREF", g, t, rf)); nm[g].append((t, rf))
        elif r < 0.75 and nm[g]:
            t, rf = rng.choice(nm[g]); ops.append(op("DELTAGREF", g, t, rf)); nm[g].remove((t, rf))
        elif r < 0.85 and pools < 6:
            ops.append(op("SETCLASS", g, rng.randint(1, 12))); pools += 1
        elif r < 0.95:
            ops.append(op("REOPEN", 0, 3))
        ops.append(op("CHECK")) if rng.random() < 0.5 else None
    ops += [op("CHECK"), op("REOPEN", 0, 1), op("CHECK")]
    return ops

def plan(ctx, tier, seed):
    hs = [scen(n, o) for n, o in curated()]
    rng = random.Random(800 + seed)
    for i in range(3 if tier == "quick" else 60):
        hs.append(scen("rand%d" % i, rand(rng)))
    return hs
