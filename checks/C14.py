"""C14 — read-only access never alters a file; write requests through it are refused."""
import random
from checks.hgen import *

META = dict(
    bounds=["S1: files built by concrete skeletons (plain, linked-block, external elements; dup), then <= 12 calls through a read-only handle drawn from the mutating and "
            "reading H entry points; payload symbolic", "S2: V/VS-level mutators on a read-only handle (see harness/C14/s2_vro.c)"],
    stubs=["stdio = models/memio.c (write log; \"rb\" streams refuse and flag writes)", "error stack = codes only", "malloc never fails"],
    outside=["programs > 12 calls", "SD/GR/AN level mutators (GR/AN: see C09/C11 harnesses' read-only phases)"],
    manifest=dict(
        level="Bounded model checking (CBMC/SAT) of the whole real libhdf on memio: after a file is built and closed, a program of mutating and reading calls runs on a "
              "read-only handle; the solver decides for all payloads that every mutating call returns its failure value, that memio's write log stays empty, that no write "
              "is even attempted on the read-only stream, and that every byte of the file equals the copy taken before the open. A second part reopens read/write and "
              "closes without edits and re-reads every object.",
        note="Trusted: memio write log, codes-only error stack, H4_VERIF hook, CBMC 6.11. Programs are enumerated (curated + VERIF_SEED-derived).",
        technique="CBMC bounded model checking of real libhdf; write-log and byte-equality assertions over an in-memory stdio model"),
)

def build(kind):
    if kind == "plain":
        return [CREATE(16), PUT(0, 6), PUT(1, 3), PUT(2, 4), CLOSE()]
    if kind == "linked":
        return [CREATE(4), PUT(1, 2), HLCREATE(0, 0, 4, 2), WRITE(0, 9), ENDACC(0), PUT(2, 3), CLOSE()]
    if kind == "external":
        return [CREATE(16), HXCREATE(0, 0, 0), WRITE(0, 5), ENDACC(0), PUT(1, 3), CLOSE()]
    return [CREATE(5), PUT(0, 5), DUPDD(3, 0), PUT(1, 2), CLOSE()]

def ro_program(rng, kind):
    ops = [OPEN(DFACC_READ)]
    muts = [lambda: PUT(2 if kind != "plain" else 3, 2), lambda: PUT(0, 2), lambda: STARTWRITE(3 if kind != "dup" else 2, 1, 4), lambda: STARTACC(0, 1, 3), lambda: STARTACC(1, 1, 6),
            lambda: HLCREATE(1, 1, 4, 2), lambda: HXCREATE(1, 1, 0), lambda: DUPDD(2 if kind == "dup" else 3, 1) if kind in ("dup",) else DELDD(1), lambda: DELDD(0)]
    reads = [lambda: GET(0), lambda: GET(1), lambda: CHECKALL(), lambda: NEWREF(0)]
    for _ in range(rng.randint(5, 8)):
        ops.append(rng.choice(muts)() if rng.random() < 0.65 else rng.choice(reads)())
    ops += [STARTACC(0, 0, 1), READ(0, 0), SEEK(0, 1), WRITE(0, 2), ENDACC(0), CHECKALL(), CLOSE()]
    return ops

def plan(ctx, tier, seed):
    hs = []
    rng = random.Random(1400 + seed)
    kinds = ["plain", "linked", "external", "dup"]
    n = 1 if tier == "quick" else 12
    for k in kinds:
        for i in range(n):
            ops = build(k) + ro_program(rng, k)
            hs.append(scenario("C14.S1.%s.%d" % (k, i), "C14", ops, disk=4096, defs={"H4V_C14": 1}, group="C14.S1"))
    # write-mode open/close with no edits: objects unchanged
    for k in kinds:
        ops = build(k) + [OPEN(DFACC_RDWR), CLOSE(), OPEN(DFACC_READ), CHECKALL(), GET(0), GET(1), CLOSE()]
        hs.append(scenario("C14.S1.%s.rw-noedit" % k, "C14", ops, disk=4096, group="C14.S1.noedit"))
    from engine.h4v import H, libhdf_units
    for gr_, an_ in ((0, 0), (1, 0), (0, 1)):
        hs.append(H("C14.S2.vro.gr%d.an%d" % (gr_, an_), "C14", src="harness/C14/s2_vro.c", units=libhdf_units(), models=["memio", "herr", "memloops", "printf"],
                    defs={"WITHGR": gr_, "WITHAN": an_, "MEMIO_DISK_SZ": 8192}, unwind=5000, kind="S", timeout=1800, symbolic="24 payload bytes",
                    bound="concrete read-only program over V/VS%s%s" % ("/GR" if gr_ else "", "/AN" if an_ else ""), group="C14.S2", hang_is_violation=True))
    return hs
