"""Skeleton DSL for harness/common/h_interp.c (H-level scenarios)."""
import os
from engine.h4v import H, libhdf_units, VERIF

DF_START, DF_CURRENT, DF_END = 0, 1, 2
DFACC_READ, DFACC_WRITE, DFACC_RDWR = 1, 2, 3

def op(name, e=0, a=0, x=0, y=0):
    return "{OP_%s,%d,%d,%d,%d}" % (name, e, a, x, y)

def CREATE(ndds=16): return op("CREATE", x=ndds)
def CLOSE(): return op("CLOSE")
def OPEN(acc=DFACC_RDWR): return op("OPEN", x=acc)
def CACHE(on): return op("CACHE", x=on)
def STARTWRITE(e, a, n): return op("STARTWRITE", e, a, n)
def STARTACC(e, a, flags): return op("STARTACC", e, a, flags)   # 1 read 2 write 4 appendable
def WRITE(a, n): return op("WRITE", 0, a, n)
def READ(a, n): return op("READ", 0, a, n)
def SEEK(a, off, origin=DF_START): return op("SEEK", 0, a, off, origin)
def TRUNC(a, n): return op("TRUNC", 0, a, n)
def APPENDABLE(a): return op("APPENDABLE", 0, a)
def ENDACC(a): return op("ENDACC", 0, a)
def HLCREATE(e, a, bl, nb): return op("HLCREATE", e, a, bl, nb)
def HLCONVERT(a, bl, nb): return op("HLCONVERT", 0, a, bl, nb)
def HXCREATE(e, a, off, start_len=0): return op("HXCREATE", e, a, off, start_len)
def DUPDD(dst, src): return op("DUPDD", dst, 0, src)
def DELDD(e): return op("DELDD", e)
def PUT(e, n): return op("PUT", e, 0, n)
def GET(e): return op("GET", e)
def CHECKALL(): return op("CHECKALL")
def INQUIRE(a): return op("INQUIRE", 0, a)
def SYNC(): return op("SYNC")
def SETLEN(a, n): return op("SETLEN", 0, a, n)
def REUSE(e): return op("REUSE", e)
def NEWREF(e): return op("NEWREF", e)
def HNEWREF(): return op("HNEWREF")

def npay_of(ops):
    n = 0
    for o in ops:
        f = o.strip("{}").split(",")
        if f[0] in ("OP_WRITE", "OP_PUT"):
            n += int(f[3])
    return n

def scenario(name, prop, ops, disk=4096, defs=None, timeout=600, extra="", nfiles=2, symbolic=None, group=None, field_sens=None):
    npay = max(1, npay_of(ops))
    text = "#define H4V_PROG %s\n#define NPAY %d\n%s\n#include \"%s\"\n" % (
        ", \\\n  ".join(ops), npay, extra, os.path.join(VERIF, "harness/common/h_interp.c"))
    d = {"MEMIO_DISK_SZ": disk, "MEMIO_NFILES": nfiles}
    d.update(defs or {})
    return H(name, prop, text=text, units=libhdf_units(), models=["memio", "herr", "memloops", "printf"],
             unwind=5000, kind="S", defs=d, timeout=timeout,
             symbolic=symbolic or ("%d payload bytes" % npay), bound="concrete skeleton of %d calls; file <= %d bytes" % (len(ops), disk),
             group=group or name.rsplit(".", 1)[0], hang_is_violation=True, **({"field_sens": field_sens} if field_sens else {}))
