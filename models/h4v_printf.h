/* h4v_printf.h — call-site promotion macro + sprintf model (E9).
 * CBMC applies no default argument promotions to variadic arguments and has no
 * sprintf body.  Units that call sprintf are compiled with -include of this file.
 * Each variadic argument is passed twice: as long (for %d %u %ld) and as
 * const char* (for %s); _Generic selects which one is meaningful. */
#ifndef H4V_PRINTF_H
#define H4V_PRINTF_H
#include <stdio.h>
#include <string.h>
int h4v_sprintf(char *buf, const char *fmt, int n, long a0, const char *s0, long a1, const char *s1, long a2,
                const char *s2, long a3, const char *s3, long a4, const char *s4);
/* (x) + 0 makes an array argument (string literal / char buffer) decay to a pointer (goto-cc's _Generic does not) */
#define H4V_L(x) _Generic((x) + 0, char *: 0L, const char *: 0L, default: (long)(x))
#define H4V_S(x) _Generic((x) + 0, char *: (const char *)(x), const char *: (const char *)(x), default: (const char *)0)
#define H4V_A(x) H4V_L(x), H4V_S(x)
#define H4V_Z    0L, (const char *)0
#define h4v_sp1(b, f)                h4v_sprintf(b, f, 0, H4V_Z, H4V_Z, H4V_Z, H4V_Z, H4V_Z)
#define h4v_sp2(b, f, a)             h4v_sprintf(b, f, 1, H4V_A(a), H4V_Z, H4V_Z, H4V_Z, H4V_Z)
#define h4v_sp3(b, f, a, c)          h4v_sprintf(b, f, 2, H4V_A(a), H4V_A(c), H4V_Z, H4V_Z, H4V_Z)
#define h4v_sp4(b, f, a, c, d)       h4v_sprintf(b, f, 3, H4V_A(a), H4V_A(c), H4V_A(d), H4V_Z, H4V_Z)
#define h4v_sp5(b, f, a, c, d, e)    h4v_sprintf(b, f, 4, H4V_A(a), H4V_A(c), H4V_A(d), H4V_A(e), H4V_Z)
#define h4v_sp6(b, f, a, c, d, e, g) h4v_sprintf(b, f, 5, H4V_A(a), H4V_A(c), H4V_A(d), H4V_A(e), H4V_A(g))
#define H4V_NARG(...)                      H4V_NARG_(__VA_ARGS__, 6, 5, 4, 3, 2, 1, 0)
#define H4V_NARG_(_1, _2, _3, _4, _5, _6, N, ...) N
#define H4V_CAT(a, b)  H4V_CAT_(a, b)
#define H4V_CAT_(a, b) a##b
#define sprintf(b, ...) H4V_CAT(h4v_sp, H4V_NARG(__VA_ARGS__))(b, __VA_ARGS__)
#endif
