/* h4v_native.c — native replay support: loads "name[idx]=bits" lines from the
 * replay input file (argv[1]) and serves them to H4V_GET; unknown names read 0. */
#include <stdio.h>
#include <stdlib.h>
#include <string.h>
#include <stdint.h>

int h4v_failed = 0;
void harness(void);

#define MAXIN 65536
static struct {
    char     name[48];
    int      idx;
    uint64_t bits;
} tab[MAXIN];
static int ntab = 0;

uint64_t
h4v_native_bits(const char *name, int idx)
{
    for (int i = 0; i < ntab; i++)
        if (tab[i].idx == idx && strcmp(tab[i].name, name) == 0)
            return tab[i].bits;
    return 0;
}

extern int memio_overflow __attribute__((weak));

int
main(int argc, char **argv)
{
    if (argc > 1) {
        FILE *f = fopen(argv[1], "r");
        char  line[256];
        if (!f) {
            perror(argv[1]);
            return 4;
        }
        while (fgets(line, sizeof line, f) && ntab < MAXIN) {
            char              nm[48];
            int               idx;
            unsigned long long b;
            if (sscanf(line, "%47[^[=][%d]=%llu", nm, &idx, &b) == 3) {
                strcpy(tab[ntab].name, nm);
                tab[ntab].idx  = idx;
                tab[ntab].bits = b;
                ntab++;
            }
            else if (sscanf(line, "%47[^=]=%llu", nm, &b) == 2) {
                strcpy(tab[ntab].name, nm);
                tab[ntab].idx  = -1;
                tab[ntab].bits = b;
                ntab++;
            }
        }
        fclose(f);
    }
    harness();
    if (&memio_overflow != 0 && memio_overflow) /* the in-memory disk was too small: a harness sizing error, never a verdict about the library */
        printf("H4V-MODEL-LIMIT memio disk too small\n");
    printf(h4v_failed ? "H4V-RESULT FAIL\n" : "H4V-RESULT PASS\n");
    return h4v_failed ? 1 : 0;
}
