/* h4v.h — harness-side conventions shared by every K- and S-harness.
 *
 *   H4V_IN(type, name)          file scope: a scalar symbolic input
 *   H4V_IN_ARR(type, name, N)   file scope: an array of N symbolic inputs
 *   H4V_GET(name) / H4V_GET_ARR(name, N)   inside harness(): draw the value(s)
 *   H4V_ASSUME(c)   precondition (placed before the code it constrains)
 *   H4V_ASSERT(c, "Cxx.<harness>.<label>: text")
 *   H4V_WITNESS()   final reachability witness: must come back FAILED under CBMC
 *
 * Under CBMC the inputs are nondeterministic; natively (-DH4V_NATIVE, used for
 * replaying counterexamples against the real build) they are loaded by name from
 * the replay file given as argv[1].
 */
#ifndef H4V_H
#define H4V_H
#include <stdint.h>
#include <stddef.h>

#ifndef H4V_NATIVE
/* ---------------- CBMC ---------------- */
#define H4V_IN(type, name)                                                                                   \
    type name;                                                                                               \
    type nondet_##name(void)
#define H4V_IN_ARR(type, name, N)                                                                            \
    type name[N];                                                                                            \
    type nondet_##name(void)
#define H4V_GET(name) name = nondet_##name()
#define H4V_GET_ARR(name, N)                                                                                 \
    do {                                                                                                     \
        for (int h4v_i_ = 0; h4v_i_ < (int)(N); h4v_i_++)                                                    \
            name[h4v_i_] = nondet_##name();                                                                  \
    } while (0)
#define H4V_ASSUME(c)      __CPROVER_assume(c)
#define H4V_ASSERT(c, msg) __CPROVER_assert((c), msg)
#define H4V_WITNESS()      __CPROVER_assert(0, "H4V-WITNESS end of harness reachable")
#define H4V_NOTE(...)      ((void)0)
#else
/* ---------------- native replay ---------------- */
#include <stdio.h>
#include <stdlib.h>
#include <string.h>
extern int h4v_failed;
uint64_t   h4v_native_bits(const char *name, int idx);
#define H4V_IN(type, name)        type name
#define H4V_IN_ARR(type, name, N) type name[N]
#define H4V_GET(name)                                                                                        \
    do {                                                                                                     \
        uint64_t h4v_b_ = h4v_native_bits(#name, -1);                                                        \
        memcpy(&name, &h4v_b_, sizeof(name));                                                                \
    } while (0)
#define H4V_GET_ARR(name, N)                                                                                 \
    do {                                                                                                     \
        for (int h4v_i_ = 0; h4v_i_ < (int)(N); h4v_i_++) {                                                  \
            uint64_t h4v_b_ = h4v_native_bits(#name, h4v_i_);                                                \
            memcpy(&name[h4v_i_], &h4v_b_, sizeof(name[0]));                                                 \
        }                                                                                                    \
    } while (0)
#define H4V_ASSUME(c)                                                                                        \
    do {                                                                                                     \
        if (!(c)) {                                                                                          \
            printf("H4V-ASSUME-UNMET %s:%d %s\n", __FILE__, __LINE__, #c);                                   \
            exit(3);                                                                                         \
        }                                                                                                    \
    } while (0)
#define H4V_ASSERT(c, msg)                                                                                   \
    do {                                                                                                     \
        if (!(c)) {                                                                                          \
            printf("H4V-FAIL %s\n", msg);                                                                    \
            h4v_failed = 1;                                                                                  \
        }                                                                                                    \
    } while (0)
#define H4V_WITNESS()      printf("H4V-WITNESS reached\n")
#define H4V_NOTE(...)      printf(__VA_ARGS__)
#define __CPROVER_assume(c) H4V_ASSUME(c)
#define __CPROVER_assert(c, m) H4V_ASSERT(c, m)
#endif

void harness(void);
#endif
