/* memio.h — interface of the in-memory stdio model (see memio.c). */
#ifndef MEMIO_H
#define MEMIO_H
#include <stdio.h>
#ifndef MEMIO_DISK_SZ
#define MEMIO_DISK_SZ 4096
#endif
#ifndef MEMIO_NFILES
#define MEMIO_NFILES 2
#endif
#ifndef MEMIO_NSTRM
#define MEMIO_NSTRM 4
#endif
#define MEMIO_NAMELEN 16
#ifndef MEMIO_LOGN
#define MEMIO_LOGN 256
#endif
struct memio_file {
    int           exists;
    int           nopen;
    long          size;
    char          name[MEMIO_NAMELEN];
    unsigned char data[MEMIO_DISK_SZ];
};
struct memio_strm {
    int  used;
    int  file;
    long pos;
    int  writable;
};
#ifndef MEMIO_LOGDATA
#define MEMIO_LOGDATA 0
#endif
struct memio_wlog {
    int  file;
    long off;
    long len;
    long doff; /* offset of the written bytes in memio_logdata (MEMIO_LOGDATA > 0) */
};
#if MEMIO_LOGDATA > 0
extern unsigned char memio_logdata[MEMIO_LOGDATA];
extern long          memio_logdata_used;
#endif
extern int  memio_guard_on, memio_guard_violated;
extern long memio_guard_below;
extern struct memio_file memio_files[MEMIO_NFILES];
extern struct memio_strm memio_strms[MEMIO_NSTRM];
extern struct memio_wlog memio_log[MEMIO_LOGN];
extern long memio_ncalls, memio_nwrites, memio_nlog, memio_fail_at, memio_short_amount;
extern int  memio_sticky, memio_any_failed, memio_ro_write_attempt, memio_overflow, memio_sparse;
extern const char *memio_failed_kind;
extern long        memio_failed_pos;
extern int         memio_phase, memio_failed_phase, memio_failed_code;
int  memio_lookup(const char *path);
void memio_reset(void);
void memio_copy_file(int dst, int src, const char *dstname);
#endif
