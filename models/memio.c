/* memio.c — in-memory model of the stdio subset used by libhdf (E1 in DESIGN.md).
 *
 * Contract modelled: bytes written are the bytes read back; reads past EOF are
 * short; writes past EOF zero-fill the gap; "rb" streams refuse writes; every
 * call is counted and every write is logged (offset, length).  Byte loops only
 * (never memcpy: CBMC's memcpy becomes an opaque array_copy term).
 *
 * Switches (all plain globals set by harnesses):
 *   memio_fail_at   : index (0-based) of the stdio call that fails; -1 = none
 *   memio_sticky    : if nonzero every call with index >= memio_fail_at fails
 *   memio_crash_at  : writes with write-index >= this are dropped from the
 *                     `crash` image of file 0 (C17); -1 = none
 * Built natively as well (replay / model validation) with -DH4V_NATIVE, in which
 * case the functions are named memio_fopen etc. and the library units are
 * compiled with -include memio_rename.h. */
#include <stdio.h>
#include <string.h>
#include <sys/stat.h>
#include "memio.h"

#ifdef H4V_NATIVE
#define FN(x) memio_##x
#else
#define FN(x) x
#endif

struct memio_file  memio_files[MEMIO_NFILES];
struct memio_strm  memio_strms[MEMIO_NSTRM];
long               memio_ncalls   = 0;    /* every stdio call */
long               memio_nwrites  = 0;    /* fwrite calls that were attempted */
long               memio_fail_at  = -1;
int                memio_sticky   = 0;
int                memio_any_failed = 0;
int                memio_ro_write_attempt = 0;
struct memio_wlog  memio_log[MEMIO_LOGN];
long               memio_nlog = 0;
int                memio_overflow = 0;
int                memio_guard_on = 0, memio_guard_violated = 0; /* C17: writes below memio_guard_below are flagged */
long               memio_guard_below = 0;
#if MEMIO_LOGDATA > 0
unsigned char      memio_logdata[MEMIO_LOGDATA];
long               memio_logdata_used = 0;
#endif
int                memio_sparse = 0; /* allow writes beyond MEMIO_DISK_SZ (not stored; read as zeros) */
long               memio_short_amount = 0; /* bytes actually transferred by a failing fread/fwrite */

const char *memio_failed_kind = 0; /* kind of the first failing call (diagnostics) */
long        memio_failed_pos  = -1;
int         memio_phase       = 0;  /* set by the harness before each API call */
int         memio_failed_phase = -1; /* phase in which the first stdio call failed */
int         memio_failed_code  = 0;  /* 1 fopen 2 fclose 3 fflush 4 fseek 5 fread 6 fwrite */
#ifdef H4V_NATIVE
int         memio_callphase[512]; /* phase of each stdio call (native planning runs only) */
#endif

static int
memio_fault_k(const char *kind, long pos, int code)
{
    long k = memio_ncalls++;
#ifdef H4V_NATIVE
    if (k < 512)
        memio_callphase[k] = memio_phase;
#endif
    if (memio_fail_at >= 0 && (k == memio_fail_at || (memio_sticky && k > memio_fail_at))) {
        if (!memio_any_failed) {
            memio_failed_kind  = kind;
            memio_failed_pos   = pos;
            memio_failed_phase = memio_phase;
            memio_failed_code  = code;
        }
        memio_any_failed = 1;
        return 1;
    }
    return 0;
}
#define memio_fault(code) memio_fault_k(__func__, -1, code)

static int
memio_name_eq(const char *a, const char *b)
{
    int i;
    for (i = 0; i < MEMIO_NAMELEN; i++) {
        if (a[i] != b[i])
            return 0;
        if (a[i] == 0)
            return 1;
    }
    return 1;
}

int
memio_lookup(const char *path)
{
    int i;
    for (i = 0; i < MEMIO_NFILES; i++)
        if (memio_files[i].exists && memio_name_eq(memio_files[i].name, path))
            return i;
    return -1;
}

static int
memio_create(const char *path)
{
    int i, j;
    i = memio_lookup(path);
    if (i < 0) {
        for (i = 0; i < MEMIO_NFILES; i++)
            if (!memio_files[i].exists)
                break;
        if (i == MEMIO_NFILES) { /* model limit: harness sizing error, never a library verdict */
            memio_overflow = 1;
#ifndef H4V_NATIVE
            __CPROVER_assert(0, "MEMIO: model file table too small (harness sizing error)");
            __CPROVER_assume(0);
#endif
            return -1;
        }
        for (j = 0; j < MEMIO_NAMELEN - 1 && path[j]; j++)
            memio_files[i].name[j] = path[j];
        memio_files[i].name[j] = 0;
        memio_files[i].exists = 1;
    }
    memio_files[i].size = 0;
    return i;
}

FILE *
FN(fopen)(const char *path, const char *mode)
{
    int f, s;
    int wr = 0, creat = 0;
    if (memio_fault(1))
        return NULL;
    if (mode[0] == 'w') {
        wr = 1;
        creat = 1;
    }
    else if (mode[0] == 'r') {
        if (mode[1] == '+' || (mode[1] && mode[2] == '+'))
            wr = 1;
    }
    else if (mode[0] == 'a') {
        wr = 1;
    }
    if (creat)
        f = memio_create(path);
    else
        f = memio_lookup(path);
    if (f < 0)
        return NULL;
    for (s = 0; s < MEMIO_NSTRM; s++)
        if (!memio_strms[s].used)
            break;
    if (s == MEMIO_NSTRM) { /* model limit: harness sizing error, never a library verdict */
        memio_overflow = 1;
#ifndef H4V_NATIVE
        __CPROVER_assert(0, "MEMIO: model stream table too small (harness sizing error)");
        __CPROVER_assume(0);
#endif
        return NULL;
    }
    memio_strms[s].used     = 1;
    memio_strms[s].file     = f;
    memio_strms[s].pos      = 0;
    memio_strms[s].writable = wr;
    memio_files[f].nopen++;
    return (FILE *)&memio_strms[s];
}

int
FN(fclose)(FILE *fp)
{
    struct memio_strm *s = (struct memio_strm *)fp;
    int                bad = memio_fault(2);
    if (s->used) {
        memio_files[s->file].nopen--;
        s->used = 0;
    }
    return bad ? EOF : 0;
}

int
FN(fflush)(FILE *fp)
{
    (void)fp;
    if (memio_fault(3))
        return EOF;
    return 0;
}

int
FN(fseek)(FILE *fp, long off, int whence)
{
    struct memio_strm *s = (struct memio_strm *)fp;
    long               np;
    if (memio_fault(4))
        return -1;
    if (whence == SEEK_SET)
        np = off;
    else if (whence == SEEK_CUR)
        np = s->pos + off;
    else
        np = memio_files[s->file].size + off;
    if (np < 0)
        return -1;
    s->pos = np;
    return 0;
}

long
FN(ftell)(FILE *fp)
{
    struct memio_strm *s = (struct memio_strm *)fp;
    memio_ncalls++;
    return s->pos;
}

size_t
FN(fread)(void *ptr, size_t size, size_t n, FILE *fp)
{
    struct memio_strm *s   = (struct memio_strm *)fp;
    struct memio_file *f   = &memio_files[s->file];
    unsigned char     *dst = (unsigned char *)ptr;
    size_t             want = size * n, i, got;
    int                bad = memio_fault_k("fread", s->pos, 5);
    long               avail = f->size - s->pos;
    if (avail < 0)
        avail = 0;
    got = want;
    if ((long)got > avail)
        got = (size_t)avail;
    if (bad) {
        long sh = memio_short_amount;
        if (sh < 0)
            sh = 0;
        if ((size_t)sh >= got)
            sh = got ? (long)got - 1 : 0;
        got = (size_t)sh;
    }
    for (i = 0; i < got; i++)
        dst[i] = (s->pos + (long)i < MEMIO_DISK_SZ) ? f->data[s->pos + (long)i] : 0;
    s->pos += (long)got;
    if (bad && got == want)
        return 0;
    return size ? got / size : 0;
}

size_t
FN(fwrite)(const void *ptr, size_t size, size_t n, FILE *fp)
{
    struct memio_strm   *s   = (struct memio_strm *)fp;
    struct memio_file   *f   = &memio_files[s->file];
    const unsigned char *src = (const unsigned char *)ptr;
    size_t               want = size * n, i, put;
    int                  bad;
    long                 k;
    if (!s->writable) {
        memio_ncalls++;
        memio_ro_write_attempt = 1;
        return 0;
    }
    bad = memio_fault_k("fwrite", s->pos, 6);
    put = want;
    if (bad) {
        long sh = memio_short_amount;
        if (sh < 0)
            sh = 0;
        if ((size_t)sh >= put)
            sh = put ? (long)put - 1 : 0;
        put = (size_t)sh;
    }
    if (s->pos + (long)put > MEMIO_DISK_SZ && !memio_sparse) {
        /* model limit exceeded: harness sizing error, never a library verdict */
        memio_overflow = 1;
#ifndef H4V_NATIVE
        __CPROVER_assert(0, "MEMIO: model disk too small (harness sizing error)");
        __CPROVER_assume(0);
#endif
        return 0;
    }
    /* zero-fill a gap between EOF and the write position */
    if (put > 0) {
        long g;
        for (g = f->size; g < s->pos && g < MEMIO_DISK_SZ; g++)
            f->data[g] = 0;
    }
    k = memio_nwrites++;
    if (memio_nlog < MEMIO_LOGN) {
        memio_log[memio_nlog].file = s->file;
        memio_log[memio_nlog].off  = s->pos;
        memio_log[memio_nlog].len  = (long)put;
#if MEMIO_LOGDATA > 0
        memio_log[memio_nlog].doff = memio_logdata_used;
        for (i = 0; i < put && memio_logdata_used < MEMIO_LOGDATA; i++)
            memio_logdata[memio_logdata_used++] = src[i];
#endif
        memio_nlog++;
    }
    if (memio_guard_on && s->file == 0 && put > 0 && s->pos < memio_guard_below)
        memio_guard_violated = 1;
    (void)k;
    for (i = 0; i < put; i++)
        if (s->pos + (long)i < MEMIO_DISK_SZ) /* sparse tail (memio_sparse): bytes beyond the model disk are not stored */
            f->data[s->pos + (long)i] = src[i];
    s->pos += (long)put;
    if (put > 0 && s->pos > f->size)
        f->size = s->pos;
    return size ? put / size : 0;
}


int
FN(fputc)(int c, FILE *fp)
{
    unsigned char b = (unsigned char)c;
    return FN(fwrite)(&b, 1, 1, fp) == 1 ? c : EOF;
}

int
FN(fgetc)(FILE *fp)
{
    unsigned char b;
    return FN(fread)(&b, 1, 1, fp) == 1 ? (int)b : EOF;
}

int
FN(remove)(const char *path)
{
    int i = memio_lookup(path);
    if (i < 0)
        return -1;
    memio_files[i].exists = 0;
    memio_files[i].size   = 0;
    return 0;
}

int
FN(stat)(const char *path, struct stat *st)
{
    int i = memio_lookup(path);
    if (i < 0)
        return -1;
    st->st_size = memio_files[i].size;
    st->st_mode = 0100644;
    return 0;
}

int
FN(access)(const char *path, int mode)
{
    (void)mode;
    return memio_lookup(path) < 0 ? -1 : 0;
}

/* ---- harness-side helpers -------------------------------------------- */

void
memio_reset(void)
{
    int i;
    for (i = 0; i < MEMIO_NFILES; i++) {
        memio_files[i].exists = 0;
        memio_files[i].size   = 0;
        memio_files[i].nopen  = 0;
    }
    for (i = 0; i < MEMIO_NSTRM; i++)
        memio_strms[i].used = 0;
    memio_ncalls = memio_nwrites = memio_nlog = 0;
    memio_fail_at          = -1;
    memio_sticky           = 0;
    memio_any_failed       = 0;
    memio_ro_write_attempt = 0;
}

void
memio_copy_file(int dst, int src, const char *dstname)
{
    long i;
    int  j;
    for (i = 0; i < memio_files[src].size; i++)
        memio_files[dst].data[i] = memio_files[src].data[i];
    memio_files[dst].size   = memio_files[src].size;
    memio_files[dst].exists = 1;
    memio_files[dst].nopen  = 0;
    for (j = 0; j < MEMIO_NAMELEN - 1 && dstname[j]; j++)
        memio_files[dst].name[j] = dstname[j];
    memio_files[dst].name[j] = 0;
}
