/* memloops_mem.c — byte-loop memcpy/memmove/memset/memcmp, for K-harnesses over
 * plain byte buffers only (never for structs holding pointers: byte-wise copies
 * lose pointer provenance under CBMC). */
#include <stddef.h>
void *memcpy(void *d, const void *s, size_t n)
{
    unsigned char *dd = (unsigned char *)d; const unsigned char *ss = (const unsigned char *)s; size_t i;
    for (i = 0; i < n; i++) dd[i] = ss[i];
    return d;
}
void *memmove(void *d, const void *s, size_t n)
{
    unsigned char *dd = (unsigned char *)d; const unsigned char *ss = (const unsigned char *)s; size_t i;
    if ((size_t)dd - (size_t)ss >= n) { for (i = 0; i < n; i++) dd[i] = ss[i]; }
    else { for (i = n; i > 0; i--) dd[i - 1] = ss[i - 1]; }
    return d;
}
void *memset(void *d, int c, size_t n)
{
    unsigned char *dd = (unsigned char *)d; size_t i;
    for (i = 0; i < n; i++) dd[i] = (unsigned char)c;
    return d;
}
int memcmp(const void *a, const void *b, size_t n)
{
    const unsigned char *aa = (const unsigned char *)a, *bb = (const unsigned char *)b; size_t i;
    for (i = 0; i < n; i++) if (aa[i] != bb[i]) return aa[i] < bb[i] ? -1 : 1;
    return 0;
}
