/* memio_rename.h — native builds only: route the library's stdio calls to memio. */
#ifndef MEMIO_RENAME_H
#define MEMIO_RENAME_H
#include <stdio.h>
#include <sys/stat.h>
#include <unistd.h>
FILE  *memio_fopen(const char *path, const char *mode);
int    memio_fclose(FILE *fp);
int    memio_fflush(FILE *fp);
int    memio_fseek(FILE *fp, long off, int whence);
long   memio_ftell(FILE *fp);
size_t memio_fread(void *ptr, size_t size, size_t n, FILE *fp);
size_t memio_fwrite(const void *ptr, size_t size, size_t n, FILE *fp);
int    memio_fputc(int c, FILE *fp);
int    memio_fgetc(FILE *fp);
int    memio_remove(const char *path);
int    memio_stat(const char *path, struct stat *st);
int    memio_access(const char *path, int mode);
#define fopen(p, m)        memio_fopen(p, m)
#define fclose(f)          memio_fclose(f)
#define fflush(f)          memio_fflush(f)
#define fseek(f, o, w)     memio_fseek(f, o, w)
#define ftell(f)           memio_ftell(f)
#define fread(p, s, n, f)  memio_fread(p, s, n, f)
#define fwrite(p, s, n, f) memio_fwrite(p, s, n, f)
#define remove(p)          memio_remove(p)
#define stat(p, s)         memio_stat(p, s)
#define access(p, m)       memio_access(p, m)
#endif
