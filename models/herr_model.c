/* herr_model.c — error stack reduced to codes (E3): what HEvalue consumers read.
 * Strings / vsnprintf formatting are dropped; formatting is not the subject of
 * any property. Replaces hdf/src/herr.c in scenario links. */
#include "hdf_priv.h"
#define H4V_ERRSZ 10
int32 error_top = 0;
static int16 h4v_errs[H4V_ERRSZ];
long h4v_pushes = 0;
const char *HEstring(hdf_err_code_t error_code) { (void)error_code; return "err"; }
void HEclear(void) { error_top = 0; }
void HEPclear(void) { error_top = 0; }
void HEpush(hdf_err_code_t error_code, const char *function_name, const char *file_name, int line)
{
    (void)function_name; (void)file_name; (void)line;
    h4v_pushes++;
    if (error_top < H4V_ERRSZ) {
        h4v_errs[error_top] = (int16)error_code;
        error_top++;
    }
}
void HEreport(const char *format, ...) { (void)format; }
void HEprint(FILE *stream, int32 print_levels) { (void)stream; (void)print_levels; }
int16 HEvalue(int32 level)
{
    if (level > 0 && level <= error_top)
        return h4v_errs[error_top - level];
    return DFE_NONE;
}
int HEshutdown(void) { error_top = 0; return SUCCEED; }
