/* h4v_printf.c — exact model of sprintf for the conversions HDF4 uses
 * internally (%s %d %u %ld %%); asserts on anything else. */
#include <stddef.h>
int
h4v_sprintf(char *buf, const char *fmt, int n, long a0, const char *s0, long a1, const char *s1, long a2,
            const char *s2, long a3, const char *s3, long a4, const char *s4)
{
    long        av[5];
    const char *sv[5];
    int         ai = 0, o = 0, i;
    av[0] = a0; av[1] = a1; av[2] = a2; av[3] = a3; av[4] = a4;
    sv[0] = s0; sv[1] = s1; sv[2] = s2; sv[3] = s3; sv[4] = s4;
    for (i = 0; fmt[i]; i++) {
        if (fmt[i] != '%') { buf[o++] = fmt[i]; continue; }
        i++;
        if (fmt[i] == '%') { buf[o++] = '%'; continue; }
        if (fmt[i] == 'l') i++;
        if (fmt[i] == 's') {
            const char *s = sv[ai++]; int k;
            for (k = 0; s[k]; k++) buf[o++] = s[k];
        }
        else if (fmt[i] == 'd' || fmt[i] == 'u') {
            long v = av[ai++]; char tmp[24]; int t = 0; unsigned long u;
            if (fmt[i] == 'd' && v < 0) { buf[o++] = '-'; u = (unsigned long)(-v); } else u = (unsigned long)v;
            do { tmp[t++] = (char)('0' + (int)(u % 10)); u /= 10; } while (u);
            while (t > 0) buf[o++] = tmp[--t];
        }
        else {
#ifndef H4V_NATIVE
            __CPROVER_assert(0, "H4V-MODEL: unsupported sprintf conversion");
#endif
        }
    }
    (void)n;
    buf[o] = 0;
    return o;
}
