/* memloops.c — libc bodies CBMC lacks or models opaquely (E2b).  Byte loops. */
#include <stddef.h>
#include <string.h>
#include <stdlib.h>
#include <sys/resource.h>
size_t strlen(const char *s) { size_t i = 0; while (s[i]) i++; return i; }
size_t strnlen(const char *s, size_t m) { size_t i = 0; while (i < m && s[i]) i++; return i; }
char *strcpy(char *d, const char *s) { size_t i = 0; while ((d[i] = s[i]) != 0) i++; return d; }
char *strncpy(char *d, const char *s, size_t n)
{
    size_t i = 0;
    for (; i < n && s[i]; i++) d[i] = s[i];
    /* ISO C pads the rest with NULs; callers in HDF4 pass FILENAME_MAX-sized
       buffers, so pad (bounded loop, concrete n). */
    for (; i < n; i++) d[i] = 0;
    return d;
}
char *strcat(char *d, const char *s) { size_t n = strlen(d), i = 0; while ((d[n + i] = s[i]) != 0) i++; return d; }
char *strncat(char *d, const char *s, size_t m)
{ size_t n = strlen(d), i = 0; for (; i < m && s[i]; i++) d[n + i] = s[i]; d[n + i] = 0; return d; }
int strcmp(const char *a, const char *b)
{ size_t i = 0; for (;; i++) { unsigned char x = (unsigned char)a[i], y = (unsigned char)b[i]; if (x != y) return x < y ? -1 : 1; if (!x) return 0; } }
int strncmp(const char *a, const char *b, size_t n)
{ size_t i = 0; for (; i < n; i++) { unsigned char x = (unsigned char)a[i], y = (unsigned char)b[i]; if (x != y) return x < y ? -1 : 1; if (!x) return 0; } return 0; }
char *strchr(const char *s, int c)
{ size_t i = 0; for (;; i++) { if (s[i] == (char)c) return (char *)s + i; if (!s[i]) return NULL; } }
char *strrchr(const char *s, int c)
{ size_t i = 0; const char *r = NULL; for (;; i++) { if (s[i] == (char)c) r = s + i; if (!s[i]) return (char *)r; } }
char *strdup(const char *s)
{ size_t n = strlen(s) + 1, i; char *d = (char *)malloc(n); if (!d) return NULL; for (i = 0; i < n; i++) d[i] = s[i]; return d; }
int getrlimit(int resource, struct rlimit *r) { (void)resource; r->rlim_cur = 1024; r->rlim_max = 1024; return 0; }
int atexit(void (*f)(void)) { (void)f; return 0; }
/* environment: no HDF* variables set (HDFEXTDIR / HDFEXTCREATEDIR unset) */
char *getenv(const char *name) { (void)name; return NULL; }
